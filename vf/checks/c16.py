"""C16 - Ranking / Dataset views stay consistent through every construction and mutation.

Engine F, differential against a reference model written from the statement (lists of buckets of typed names):
[P]   every dataset shape in the bound, several element namings (ints, letters, digit strings, mixed), every history of
      up to 2 (thorough 3) mutator calls: remove_elements(S) for every subset S (plus an element outside the universe),
      remove_empty_rankings(), remove_elements_rate_presence_lower_than(t);
[S]   the presence-rate threshold t is a symbolic real: the library's comparisons fork the path and for every element the
      solver proves 'removed <=> presence/m < t' over the whole path region.
After every step all views are compared with the model: buckets, positions, domain, sizes of every ranking; universe,
id maps (inverse bijections on 0..n-1 and nothing else), element types, completeness / tie flags, position and bucket-id
matrices; unified rankings / dataset; projections on every subset of elements and of ids.
"""
import itertools, random
from fractions import Fraction
import z3
from vf import harness, fork, spec, shapes
from vf.harness import STATS

PID = "C16"
NAMINGS = {1: [[7], ["x"], ["3"]], 2: [[1, 2], ["b", "a"], ["2", "10"], ["a", "1"], [1, "a"], [2, "1"]],
           3: [[1, 2, 3], [3, 1, 2], ["b", "a", "c"], ["1", "2", "a"], ["10", "9", "8"], [1, "a", 2], ["3", 1, 2]],
           4: [[1, 2, 3, 4], [4, 2, 3, 1], ["d", "a", "c", "b"], ["1", "b", "2", "a"], [1, "b", 2, "a"]]}


# ---------------------------------------------------------------- reference model
def typed(names_in_dataset):
    """all int when every name is integer-like, else all str"""
    allint = all(isinstance(x, int) or (isinstance(x, str) and x.isdigit()) for x in names_in_dataset)
    return (lambda x: int(x)) if allint else (lambda x: str(x))


def model_of(lvs, names):
    rk = [[[names[e] for e in b] for b in spec.buckets_of(lv)] for lv in lvs]
    return retype(rk)


def retype(rk):
    allnames = [x for r in rk for b in r for x in b]
    t = typed(allnames)
    return [[[t(x) for x in b] for b in r] for r in rk]


def model_remove(rk, removed):
    rem = set(removed)
    out = []
    for r in rk:
        nr = [[x for x in b if x not in rem] for b in r]
        nr = [b for b in nr if b]
        if nr:
            out.append(nr)
    return retype(out)


def model_remove_empty(rk):
    return retype([r for r in rk if r])


def current_model(ds):
    """the model read back from the rankings the dataset reports now (used after a refused mutation)"""
    return [[[e.value for e in b] for b in r.buckets] for r in ds.rankings]


def universe_of(rk):
    seen = []
    for r in rk:
        for b in r:
            for x in b:
                if x not in seen:
                    seen.append(x)
    return seen


# ---------------------------------------------------------------- comparison of all views
def key(el):
    return (el.type.__name__, el.value)


def check_ranking(r, buckets, where):
    """real Ranking r vs expected list of buckets (typed names)"""
    from corankco.element import Element
    got = [sorted((key(e) for e in b), key=repr) for b in r.buckets]
    exp = [sorted(((type(x).__name__, x) for x in b), key=repr) for b in buckets]
    if got != exp:
        return f"{where}: buckets {r.buckets} != expected {buckets}"
    if [sorted((key(e) for e in b), key=repr) for b in r] != exp or len(r) != len(buckets):
        return f"{where}: iteration / len disagree with buckets"
    pos, before = {}, 0
    for b in buckets:
        for x in b:
            pos[(type(x).__name__, x)] = before + 1
        before += len(b)
    gp = {key(e): p for e, p in r.positions.items()}
    if gp != pos:
        return f"{where}: positions {r.positions} disagree with buckets {r.buckets} (expected {pos})"
    if {key(e) for e in r.domain} != set(pos) or r.nb_elements != len(pos):
        return f"{where}: domain / nb_elements disagree with buckets {r.buckets}"
    for i in range(len(buckets)):
        if sorted((key(e) for e in r[i]), key=repr) != exp[i]:
            return f"{where}: __getitem__({i}) disagrees"
    for b in r.buckets:
        for e in b:
            if not isinstance(e, Element):
                return f"{where}: member {e!r} is not an Element"
    return None


def check_dataset(ds, rk, where, deep=True):
    uni = universe_of(rk)
    n, m = len(uni), len(rk)
    if len(ds.rankings) != m or ds.nb_rankings != m:
        return f"{where}: {ds.nb_rankings} rankings, expected {m}"
    for i, (r, b) in enumerate(zip(ds.rankings, rk)):
        msg = check_ranking(r, b, f"{where} ranking {i}")
        if msg:
            return msg
        if [sorted((key(e) for e in b), key=repr) for b in ds[i].buckets] != [sorted((key(e) for e in b), key=repr) for b in r.buckets]:
            return f"{where}: __getitem__ disagrees with rankings"
    ukeys = {(type(x).__name__, x) for x in uni}
    if {key(e) for e in ds.universe} != ukeys or ds.nb_elements != n:
        return f"{where}: universe {ds.universe} / nb_elements {ds.nb_elements} != union of the domains {uni}"
    e2i = {key(e): i for e, i in ds.mapping_elem_id.items()}
    i2e = {i: key(e) for i, e in ds.mapping_id_elem.items()}
    if set(e2i) != ukeys or sorted(e2i.values()) != list(range(n)):
        return f"{where}: mapping_elem_id {ds.mapping_elem_id} is not a bijection universe -> 0..{n - 1}"
    if set(i2e) != set(range(n)) or any(e2i[i2e[i]] != i for i in range(n)):
        return f"{where}: mapping_id_elem {ds.mapping_id_elem} is not the inverse of mapping_elem_id {ds.mapping_elem_id} on 0..{n - 1}"
    types = {t for t, _ in {key(e) for e in ds.universe}}
    exp_t = {'int'} if all(isinstance(x, int) for x in uni) else {'str'}
    if types != exp_t:
        return f"{where}: element types {types}, expected {exp_t}"
    complete = all(sum(len(b) for b in r) == n for r in rk)
    noties = all(len(b) == 1 for r in rk for b in r)
    if ds.is_complete != complete or ds.without_ties != noties:
        return f"{where}: flags complete={ds.is_complete} without_ties={ds.without_ties}, expected {complete} {noties}"
    P, Bk = ds.get_positions(), ds.get_bucket_ids()
    if tuple(P.shape) != (n, m) or tuple(Bk.shape) != (n, m):
        return f"{where}: matrix shapes {P.shape} {Bk.shape}, expected {(n, m)}"
    for j, r in enumerate(rk):
        pos, bid, before = {}, {}, 0
        for k, b in enumerate(r):
            for x in b:
                pos[(type(x).__name__, x)], bid[(type(x).__name__, x)] = before, k
            before += len(b)
        for kx, i in e2i.items():
            if P[i][j] != pos.get(kx, -1) or Bk[i][j] != bid.get(kx, -1):
                return f"{where}: position/bucket-id matrix entry of {kx[1]} in ranking {j} is {P[i][j]}/{Bk[i][j]}, expected {pos.get(kx, -1)}/{bid.get(kx, -1)}"
    if not deep:
        return None
    # unification: exactly the missing elements appended as one last bucket
    urk = [r + ([[x for x in uni if x not in [y for b in r for y in b]]] if any(x not in [y for b in r for y in b] for x in uni) else []) for r in rk]
    ur = ds.unified_rankings()
    if len(ur) != m:
        return f"{where}: unified_rankings returned {len(ur)} rankings"
    for i, (r, b) in enumerate(zip(ur, urk)):
        msg = check_ranking(r, b, f"{where} unified ranking {i}")
        if msg:
            return msg
    msg = check_dataset(ds.unified_dataset(), retype(urk), where + " unified_dataset", deep=False)
    if msg:
        return msg
    # the dataset itself must be untouched by deriving
    for i, (r, b) in enumerate(zip(ds.rankings, rk)):
        msg = check_ranking(r, b, f"{where} ranking {i} after unification")
        if msg:
            return msg
    # projections
    from corankco.element import Element
    from corankco.dataset import EmptyDatasetException
    for k in range(1, n + 1):
        for kept in itertools.combinations(uni, k):
            exp_all = [[[x for x in b if x in kept] for b in r] for r in rk]
            exp_all = [[b for b in r if b] for r in exp_all]
            for how, keep in (("elements", False), ("ids", False), ("elements", True), ("ids", True)):
                # keep_empty_rankings=True: rankings that meet none of the kept elements stay, as empty rankings
                exp = retype(exp_all if keep else [r for r in exp_all if r])
                kw = {"keep_empty_rankings": True} if keep else {}
                try:
                    if how == "elements":
                        sub = ds.sub_problem_from_elements({Element(x) for x in kept}, **kw)
                    else:
                        sub = ds.sub_problem_from_ids({e2i[(type(x).__name__, x)] for x in kept}, **kw)
                except EmptyDatasetException:
                    if exp:
                        return f"{where}: projection on {kept} raised EmptyDatasetException"
                    continue
                msg = check_dataset(sub, exp, f"{where} projection({how}{', keep_empty_rankings' if keep else ''}) on {list(kept)}", deep=False)
                if msg:
                    return msg
    return None


# ---------------------------------------------------------------- symbolic removal set
class SymSet:
    """a set of Elements whose membership is decided by forks (one z3 Bool per candidate)"""
    def __init__(self, cands, tag):
        from corankco.element import Element
        self.cands = [Element(c) for c in cands]
        self.vars = [z3.Bool(f"{tag}_{i}") for i in range(len(cands))]

    def _in(self, i):
        return fork.CUR.branch(self.vars[i])

    def __contains__(self, x):
        for i, c in enumerate(self.cands):
            if c == x:
                return self._in(i)
        return False

    def __iter__(self):
        return iter([c for i, c in enumerate(self.cands) if self._in(i)])

    def __len__(self):
        return sum(1 for i in range(len(self.cands)) if self._in(i))

    def members(self):
        return [c.value for i, c in enumerate(self.cands) if self._in(i)]


def history_item(args):
    lvs, names, ops = args
    from corankco.dataset import EmptyDatasetException
    out = []
    t = z3.Real("t")
    ex = fork.Explorer([t >= 0, t <= 2], max_paths=200000)

    def payload(ctx, what, steps):
        return {"signature": {"site": "Dataset", "class": what.split(":")[0][:40]}, "what": what, "rankings": shapes.raw_json(lvs, names),
                "steps": steps}

    def path(ctx):
        ds = shapes.build(lvs, names)
        rk = model_of(lvs, names)
        msg = check_dataset(ds, rk, "after construction")
        steps = []
        if msg:
            out.append(payload(ctx, msg, steps))
            return
        for k, op in enumerate(ops):
            uni = universe_of(rk)
            try:
                if op == "empty":
                    steps.append(["remove_empty_rankings"])
                    exp = model_remove_empty(rk)
                    ds.remove_empty_rankings()
                elif op == "remove":
                    S = SymSet(list(uni) + ([99] if all(isinstance(x, int) for x in uni) else ["zz"]), f"s{k}")
                    ds.remove_elements(S)
                    mem = S.members()
                    steps.append(["remove_elements", mem])
                    exp = model_remove(rk, mem)
                else:
                    m = len(rk)
                    ds.remove_elements_rate_presence_lower_than(fork.wrap(t))
                    after = {key(e) for e in ds.universe}
                    removed = []
                    for x in uni:
                        cnt = sum(1 for r in rk if any(x in b for b in r))
                        gone = (type(x).__name__, x) not in after and not (isinstance(x, str) and x.isdigit() and ('int', int(x)) in after)
                        ratio = fork.term(cnt / m)      # the float quotient, as the library computes it (float rounding of the rate is outside the claim)
                        mdl = ctx.prove(ratio < t if gone else z3.Not(ratio < t))
                        if mdl is not None:
                            tv = harness.zval(mdl, t)
                            steps.append(["remove_elements_rate_presence_lower_than", float(tv)])
                            out.append(payload(ctx, f"rate filter: element {x} (present in {cnt}/{m} rankings) {'removed' if gone else 'kept'} for threshold {tv}", steps))
                            return
                        if gone:
                            removed.append(x)
                    ctx._ensure_model()
                    steps.append(["remove_elements_rate_presence_lower_than", float(harness.zval(ctx.model, t))])
                    exp = model_remove(rk, removed)
            except EmptyDatasetException:
                if op == "remove":
                    mem = S.members()
                    steps.append(["remove_elements", mem])
                    exp = model_remove(rk, mem)
                elif op == "rate":
                    ctx._ensure_model()
                    tv = harness.zval(ctx.model, t)
                    steps.append(["remove_elements_rate_presence_lower_than", float(tv)])
                    exp = model_remove(rk, [x for x in uni if Fraction(sum(1 for r in rk if any(x in b for b in r)), len(rk)) < tv])
                if universe_of(exp):
                    out.append(payload(ctx, f"EmptyDatasetException although elements remain after step {steps[-1]}", steps))
                    return
                # documented refusal (nothing would be left): the object the caller still holds must stay self-consistent -
                # all views are compared with the rankings it reports now, and the history goes on from there
                steps[-1] = steps[-1] + ["refused"]
                rk = current_model(ds)
                if not universe_of(rk):
                    return
                msg = check_dataset(ds, rk, f"after the refused step {steps}")
                if msg:
                    out.append(payload(ctx, msg, steps))
                    return
                continue
            except Exception as e:  # noqa
                if op == "remove":
                    steps.append(["remove_elements", S.members()])
                out.append(payload(ctx, f"step {steps[-1] if steps else op} raised {type(e).__name__}: {e}", steps))
                return
            if not universe_of(exp):
                out.append(payload(ctx, f"no exception although nothing remains after step {steps[-1]}", steps))
                return
            rk = exp
            msg = check_dataset(ds, rk, f"after {steps}")
            if msg:
                out.append(payload(ctx, msg, steps))
                return
    ex.explore(path)
    STATS.sample({"dataset": shapes.raw_json(lvs, names), "history": ops, "removal sets": "all subsets (forked)", "threshold": "symbolic real"}, cap=8)
    return out


def run(run):
    fork.install_shims()
    rnd = random.Random(run.seed)
    if run.thorough:
        plan = {(1, 1): None, (1, 2): None, (2, 1): None, (2, 2): None, (3, 1): None, (3, 2): 250, (3, 3): 60, (4, 2): 40}
        hists = [h for k in (1, 2, 3) for h in itertools.product(("remove", "rate", "empty"), repeat=k)]
    else:
        plan = {(1, 1): None, (1, 2): None, (2, 1): None, (2, 2): None, (3, 1): None, (3, 2): 60, (3, 3): 10, (4, 2): 6}
        hists = [h for k in (1, 2) for h in itertools.product(("remove", "rate", "empty"), repeat=k)]
    items = []
    desc = []
    for (n, m), k in plan.items():
        pool = list(shapes.datasets(n, m, cover=True, allow_empty=(m >= 2)))
        chosen = pool if k is None or k >= len(pool) else rnd.sample(pool, k)
        desc.append({"n": n, "m": m, "datasets": len(chosen), "of": len(pool)})
        for i, lvs in enumerate(chosen):
            nm = NAMINGS[n][i % len(NAMINGS[n])]
            hs = hists if n <= 2 else rnd.sample(hists, min(len(hists), 4 if not run.thorough else 8))
            for h in hs:
                items.append((lvs, nm, h))
    run.bounds = {"datasets (incl. empty rankings)": desc, "histories": f"all sequences of <= {max(len(h) for h in hists)} mutator calls (sampled per dataset for n >= 3)",
                  "removal sets": "every subset of the universe + one foreign element", "threshold": "symbolic real in [0, 2]",
                  "namings": "ints, letters, digit strings, mixed"}
    run.assumptions = ["reference model of Dataset semantics written from the statement", "shapes, namings, histories and removal sets are enumerated / forked "
                       "(declared enumeration); only the rate threshold is solver-quantified"]
    run.outside = ["n > 4", "element names beyond short ASCII strings and small ints (str.isdigit on arbitrary Unicode)", "file-based constructors (C18)"]
    run.rule = "one item per (dataset, naming, history); every path = one choice of removal sets x one region of thresholds; all views compared after every step"
    run.pmap("histories", history_item, items, chunksize=4)
    run.extra["work_items"] = len(items)


def replay(p):
    from corankco.dataset import Dataset, EmptyDatasetException
    from corankco.element import Element
    ds = Dataset.from_raw_list(shapes.from_json(p["rankings"]))
    rk = retype([[list(b) for b in r] for r in p["rankings"]])
    msg = check_dataset(ds, rk, "after construction")
    if msg:
        return True, msg
    done = []
    for st in p["steps"]:
        uni = universe_of(rk)
        try:
            if st[0] == "remove_empty_rankings":
                exp = model_remove_empty(rk)
                ds.remove_empty_rankings()
            elif st[0] == "remove_elements":
                t = typed(uni)
                mem = [x for x in st[1]]
                exp = model_remove(rk, [t(x) if (isinstance(x, int) or str(x).isdigit()) and t is not str else (str(x) if t("1") == "1" else x) for x in mem])
                ds.remove_elements({Element(x) for x in mem})
            else:
                tv = st[1]
                exp = model_remove(rk, [x for x in uni if sum(1 for r in rk if any(x in b for b in r)) / len(rk) < tv])
                ds.remove_elements_rate_presence_lower_than(tv)
        except EmptyDatasetException:
            if universe_of(exp):
                return True, f"EmptyDatasetException after {done + [st]}; elements remaining in the model: {universe_of(exp)}"
            done.append(st)
            rk = current_model(ds)
            if not universe_of(rk):
                return False, "refused step left no ranking: nothing further to compare"
            msg = check_dataset(ds, rk, f"after the refused step {done}")
            if msg:
                return True, msg
            continue
        except Exception as e:  # noqa
            return True, f"step {st} raised {type(e).__name__}: {e}"
        done.append(st)
        if not universe_of(exp):
            return True, f"no exception although nothing remains after {done}"
        rk = exp
        msg = check_dataset(ds, rk, f"after {done}")
        if msg:
            return True, msg
    return False, "all views consistent"
