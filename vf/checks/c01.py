"""C01 - Kemeny score equals the generalized pairwise-penalty definition.

[PxS] Engine F: the real KemenyComputingFactory.get_kemeny_score (and the lazy Consensus.kemeny_score) is executed on
      every enumerated (dataset, candidate) shape with the 12 penalties symbolic; the solver must refute
      impl != definition over all valid schemes.  Candidates lacking a dataset element must raise the dedicated
      exception.
[S]   Engine M on the real source of __merge / __mergesortlike: symbolic sorted arrays; output is the sorted merge,
      s_1[1] grows by #{l>r}, s_2[0] by #{l==r}, nothing else changes; unwinding + index obligations.
"""
import itertools, random
import z3
from vf import harness, merge, spec, shapes, fork
from vf.harness import STATS

PID = "C01"


def cand_payload(lvs, names, cand_buckets, mdl, B, T, what, cls):
    return {"signature": {"site": "get_kemeny_score", "class": cls}, "what": what,
            "rankings": shapes.raw_json(lvs, names), "candidate": [sorted(b) for b in cand_buckets],
            "scheme": fork.scheme_values(mdl, B, T) if mdl is not None else [[0, 1, 1, 0, 1, 1], [1, 1, 0, 1, 1, 0]]}


def score_item(args):
    lvs, names, extra = args
    from corankco.kemeny_score_computation import KemenyComputingFactory, InvalidRankingsForComputingDistance
    from corankco.ranking import Ranking
    from corankco.consensus import Consensus
    out = []
    n = len(names)
    ds = shapes.build(lvs, names)
    present = [e for e in range(n) if any(r[e] != -1 for r in lvs)]
    B, T = fork.scheme_vars()
    sc = fork.make_scheme(B, T)
    ex = fork.Explorer(fork.valid_scheme(B, T))
    extra_names = [100 + i for i in range(extra)] if isinstance(names[0], int) else ["z%d" % i for i in range(extra)]
    allnames = list(names) + extra_names
    universe = present + list(range(n, n + extra))
    cands = list(spec.ordered_partitions(universe))
    sampled = None

    def path(ctx):
        kf = KemenyComputingFactory(sc)
        for ci, part in enumerate(cands):
            cb = [[allnames[e] for e in b] for b in part]
            r = Ranking([set(b) for b in cb])
            clv = {e: i for i, b in enumerate(part) for e in b}
            exp = spec.score_c(clv, [list(lv) + [-1] * extra for lv in lvs], B, T, elems=universe)
            try:
                got = kf.get_kemeny_score(r, ds)
            except Exception as e:  # noqa
                out.append(cand_payload(lvs, names, cb, None, B, T, f"get_kemeny_score raised {type(e).__name__}: {e}", "raises"))
                return
            mdl = ctx.prove(fork.term(got) == fork.term(exp))
            if mdl is not None:
                out.append(cand_payload(lvs, names, cb, mdl, B, T, "score differs from the definition", "score"))
                return
            if ci % 7 == 0:
                c = Consensus([r], ds, sc)
                got2 = c.kemeny_score
                mdl = ctx.prove(fork.term(got2) == fork.term(exp))
                if mdl is not None:
                    out.append(cand_payload(lvs, names, cb, mdl, B, T, "lazy Consensus.kemeny_score differs from the definition", "lazy"))
                    return
        # candidates lacking one dataset element must be refused, never scored
        for miss in present:
            rest = [e for e in universe if e != miss]
            for part in (list(spec.ordered_partitions(rest))[:4] if rest else [[]]):
                cb = [[allnames[e] for e in b] for b in part]
                r = Ranking([set(b) for b in cb])
                try:
                    got = kf.get_kemeny_score(r, ds)
                    out.append(cand_payload(lvs, names, cb, None, B, T, f"candidate lacking {names[miss]} was scored instead of refused", "not-refused"))
                    return
                except InvalidRankingsForComputingDistance:
                    STATS.q["refusal:ok"] += 1
                except Exception as e:  # noqa
                    out.append(cand_payload(lvs, names, cb, None, B, T, f"candidate lacking {names[miss]}: {type(e).__name__} instead of the dedicated exception", "wrong-exception"))
                    return

    ex.explore(path)
    STATS.sample({"dataset": shapes.raw_json(lvs, names), "candidates": len(cands), "extra_candidate_elements": extra,
                  "scheme": "12 symbolic reals"}, cap=8)
    return out


def merge_check(args):
    nl, nr, nb = args
    from corankco.kemeny_score_computation import KemenyComputingFactory as K
    out = []
    I = merge.new_interp(unwind=nl + nr + 1)
    left, L = merge.sym_array(I, "l", (nl,))
    right, R = merge.sym_array(I, "r", (nr,))
    s1, S1 = merge.sym_array(I, "s1", (6,))
    s2, S2 = merge.sym_array(I, "s2", (6,))
    res = I.call_function(K.__dict__['_KemenyComputingFactory__merge'], [left, right, s1, s2])
    STATS.encoded.update(I.ctx.encoded)
    pre = [z3.And(x >= 0, x < nb) for x in L + R] + [L[i] <= L[i + 1] for i in range(nl - 1)] + \
          [R[i] <= R[i + 1] for i in range(nr - 1)]
    inv = sum([z3.If(l > r, 1, 0) for l in L for r in R], z3.IntVal(0))
    eq = sum([z3.If(l == r, 1, 0) for l in L for r in R], z3.IntVal(0))
    s = harness.solver()
    s.add(*pre)
    if harness.check(s, "vacuity") != "sat":
        raise harness.HarnessError("vacuous")
    c1 = [merge.to_z3(x) for x in merge.cells_of(I, s1)]
    c2 = [merge.to_z3(x) for x in merge.cells_of(I, s2)]
    outv = [merge.to_z3(merge.cell(I, res, (i,))) for i in range(nl + nr)]
    posts = {"s_1[1] += #inversions": c1[1] == S1[1] + inv, "s_2[0] += #equal pairs": c2[0] == S2[0] + eq}
    for k in (0, 2, 3, 4, 5):
        posts[f"s_1[{k}] unchanged"] = c1[k] == S1[k]
    for k in (1, 2, 3, 4, 5):
        posts[f"s_2[{k}] unchanged"] = c2[k] == S2[k]
    posts["output sorted"] = z3.And(*[outv[i] <= outv[i + 1] for i in range(nl + nr - 1)]) if nl + nr > 1 else z3.BoolVal(True)
    posts["output is a permutation of the inputs"] = z3.And(*[
        sum([z3.If(x == v, 1, 0) for x in outv], z3.IntVal(0)) == sum([z3.If(x == v, 1, 0) for x in L + R], z3.IntVal(0)) for v in range(nb)])

    def cex(mdl, what):
        return {"signature": {"site": "__merge", "class": what.split(" ")[0]}, "what": f"__merge({nl}+{nr}): {what}",
                "left": [harness.zval(mdl, x) for x in L], "right": [harness.zval(mdl, x) for x in R]}
    for name, f in posts.items():
        r, mdl = harness.refute(s, "property", z3.Not(f))
        if r == "sat":
            out.append(cex(mdl, name))
        elif r != "unsat":
            raise harness.Inconclusive("merge query unknown")
    for txt, r, mdl in merge.discharge_obligations(I, s):
        if mdl is None:
            raise harness.Inconclusive(txt)
        out.append(cex(mdl, "obligation " + txt))
    STATS.states += 1
    STATS.sample({"kernel": "__merge", "left": nl, "right": nr, "values": f"0..{nb - 1}", "posts": len(posts)})
    return out


def validate_merge(seed, rounds):
    from corankco.kemeny_score_computation import KemenyComputingFactory as K
    import numpy as np
    rnd = random.Random(seed)
    fn = K.__dict__['_KemenyComputingFactory__merge']
    for _ in range(rounds):
        a = sorted(rnd.randint(0, 4) for _ in range(rnd.randint(0, 4)))
        b = sorted(rnd.randint(0, 4) for _ in range(rnd.randint(0, 4)))
        s1, s2 = np.zeros(6, dtype=int), np.zeros(6, dtype=int)
        real = fn.__func__(np.asarray(a, dtype=int), np.asarray(b, dtype=int), s1, s2)
        I = merge.new_interp(unwind=len(a) + len(b) + 1)
        la, lb = merge.const_array(I, (len(a),), a), merge.const_array(I, (len(b),), b)
        m1, m2 = merge.const_array(I, (6,), [0] * 6), merge.const_array(I, (6,), [0] * 6)
        res = I.call_function(fn, [la, lb, m1, m2])
        if [int(x) for x in merge.cells_of(I, res)] != [int(x) for x in real] or \
                [int(x) for x in merge.cells_of(I, m1)] != [int(x) for x in s1] or \
                [int(x) for x in merge.cells_of(I, m2)] != [int(x) for x in s2]:
            raise harness.HarnessError("Engine M disagrees with the real __merge on a concrete input")
        STATS.validated += 1


def run(run):
    fork.install_shims()
    if run.thorough:
        sets = [(1, 1, 2), (1, 2, 2), (2, 1, 2), (2, 2, 1), (3, 1, 1), (3, 2, 1), (3, 3, 0), (4, 1, 0)]
        merges = [(1, 1, 2), (2, 2, 3), (3, 2, 3), (3, 3, 4), (0, 2, 2), (2, 0, 2), (1, 3, 3)]
        n4m2 = 1500
    else:
        sets = [(1, 1, 2), (1, 2, 1), (2, 1, 2), (2, 2, 1), (2, 3, 0), (3, 1, 1), (3, 2, 1)]
        merges = [(1, 1, 2), (2, 2, 3), (3, 2, 3), (0, 2, 2), (2, 0, 2), (1, 3, 3)]
        n4m2 = 400
    run.bounds = {"score [PxS] exhaustive (n, m, extra candidate elements)": sets, "n=4,m=2 sampled datasets": n4m2,
                  "candidates": "all rankings with ties of universe + extra elements; every candidate lacking one element (4 shapes each)",
                  "merge [S] (|left|, |right|, #values)": merges}
    run.assumptions = ["float64 modelled as exact reals", "dataset and candidate shapes enumerated, scheme symbolic",
                       "datasets include empty rankings (m>=2) and universes smaller than n"]
    run.outside = ["n > 4", "m > 3", "float64 rounding of the final dot products"]
    run.rule = ("one path per (dataset shape); one query per candidate ranking: exists valid scheme with impl != definition; "
                "non-trivial = all (the precondition 'valid scheme' is satisfiable)")
    run.part("validate_merge", lambda: validate_merge(run.seed, 40))
    run.pmap("merge_check", merge_check, merges)
    items = []
    for n, m, extra in sets:
        namings = [list(range(1, n + 1)), ["b", "a", "c", "d"][:n], [3, 1, 4, 2][:n]]
        for i, lvs in enumerate(shapes.datasets(n, m, cover=False, allow_empty=(m > 1))):
            if all(all(v == -1 for v in r) for r in lvs):
                continue
            items.append((lvs, namings[i % 3], extra))
    rnd = random.Random(run.seed)
    r4 = shapes.rankings_over(4)
    for i in range(n4m2):
        items.append(((rnd.choice(r4), rnd.choice(r4)), [4, 2, 3, 1], 0 if i % 4 else 1))
    run.pmap("score_item", score_item, items, chunksize=4)
    run.extra["datasets"] = len(items)


def replay(p):
    from corankco.dataset import Dataset
    from corankco.scoringscheme import ScoringScheme
    from corankco.ranking import Ranking
    from corankco.consensus import Consensus
    from corankco.kemeny_score_computation import KemenyComputingFactory, InvalidRankingsForComputingDistance
    if "left" in p:
        import numpy as np
        fn = KemenyComputingFactory.__dict__['_KemenyComputingFactory__merge'].__func__
        s1, s2 = np.zeros(6, dtype=int), np.zeros(6, dtype=int)
        L, R = p["left"], p["right"]
        try:
            res = [int(x) for x in fn(np.asarray(L, dtype=int), np.asarray(R, dtype=int), s1, s2)]
        except Exception as e:  # noqa
            return True, f"__merge raised {type(e).__name__}: {e}"
        inv = sum(1 for l in L for r in R if l > r)
        eq = sum(1 for l in L for r in R if l == r)
        ok = res == sorted(L + R) and s1[1] == inv and s2[0] == eq and sum(s1) == inv and sum(s2) == eq
        return (not ok), f"merge({L},{R}) -> {res}, s_1={list(s1)}, s_2={list(s2)}; expected inversions={inv}, equal pairs={eq}"
    ds = Dataset.from_raw_list(shapes.from_json(p["rankings"]))
    sc = ScoringScheme([[float(x) for x in p["scheme"][0]], [float(x) for x in p["scheme"][1]]])
    cand = Ranking(shapes.from_json([p["candidate"]])[0])
    dsnames = {x for r in p["rankings"] for b in r for x in b}
    cnames = [x for b in p["candidate"] for x in b]
    lacking = dsnames - set(cnames)
    try:
        got = KemenyComputingFactory(sc).get_kemeny_score(cand, ds)
    except InvalidRankingsForComputingDistance:
        return (not lacking), "dedicated exception raised" + ("" if lacking else " although the candidate is complete")
    except Exception as e:  # noqa
        return True, f"raised {type(e).__name__}: {e}"
    if lacking:
        return True, f"candidate lacking {sorted(lacking, key=str)} was scored: {got}"
    clv = {x: i for i, b in enumerate(p["candidate"]) for x in b}
    rks = [{x: i for i, b in enumerate(r) for x in b} for r in p["rankings"]]
    exp = spec.score_c(clv, rks, sc.b_vector, sc.t_vector, elems=cnames)
    got2 = Consensus([cand], ds, sc).kemeny_score
    bad = abs(got - exp) > 1e-9 or abs(got2 - exp) > 1e-9
    return bad, f"get_kemeny_score={got} lazy={got2} definition={exp}"
