"""C08 - BioConsert returns a local optimum of the Kemeny score (threshold 0.001).

[S]   Engine M, inductive, on the real kernel sources: from ANY dense bucket-id vector and ANY mirror-consistent real
      cost table: K1+K2 the two searches return -1 only when no join / new-bucket move of the element improves by more
      than 0.001, and otherwise a move whose entry equals the true delta < -0.001; K3 the moves realise exactly the
      intended single-element move and keep the vector dense; K4 one iteration of the for-elem body of
      _improve_one_ranking preserves (dense, max_id_bucket = max(r), delta bookkeeping), leaves `terminated` unchanged
      only if the element has no improving move and otherwise strictly decreases the score by > 0.001.  A pass that
      leaves terminated = 1 therefore ends in a local optimum, for walks of any length.
[PxS] Engine F end to end: BioConsert(), BioConsert([Copeland]), BioCo(), ... on enumerated real datasets with the
      scheme symbolic; for every returned ranking and every single-element move the solver refutes delta < -0.001.
"""
from vf import harness, sweep
from vf.checks import bio_kernels as bk

PID = "C08"
CFGS = ["BioConsert", "BioConsert[Copeland]", "BioCo", "BioConsert[KwikSort,Borda]", "BioConsert[PickAPerm]"]


def run(run):
    sweep.install()
    if run.thorough:
        kn = [(n, e) for n in (1, 2, 3, 4, 5) for e in range(n)]
        heavy = {(1, 1): None, (1, 2): None, (2, 1): None, (2, 2): None, (3, 1): None, (3, 2): 200, (4, 1): 16}
    else:
        kn = [(n, e) for n in (1, 2, 3, 4) for e in range(n)]
        heavy = {(1, 1): None, (2, 1): None, (2, 2): None, (3, 1): None, (3, 2): 40}
    run.assumptions = ["inductive kernel checks quantify over any dense r and any mirror-consistent real table (a superset of "
                       "the reachable states)", "float64 modelled as exact reals; the 0.001 threshold is the rational 1/1000",
                       "end-to-end part: dataset shapes enumerated, scheme symbolic", "starting algorithms' random pivots arbitrary"]
    run.outside = ["n > 5 (kernels), n > 4 (end to end)", "float rounding of accumulated deltas"]
    run.rule = "kernels: one query per post-condition per (n, element); end to end: one query per returned ranking (conjunction over all single-element moves)"
    run.bounds["kernels [S] (n, element)"] = kn
    run.pmap("bk.search_check", bk.search_check, kn)
    run.pmap("bk.move_check", bk.move_check, kn)
    run.pmap("bk.step_check", bk.step_check, [x for x in kn if x[0] >= 1])
    items = sweep.make_items(run, CFGS, ["localopt"], flags=(False,), light=heavy, heavy=heavy)
    items += sweep.history_items(run, CFGS[:3], ["localopt"], 6 if run.thorough else 2, flags=(False,))
    run.pmap("sweep.run_item", sweep.run_item, sweep.order_items(items), chunksize=1)
    run.extra["work_items"] = len(items)
    run.extra["stubs"] = sweep.install()


def replay(p):
    if "config" not in p:
        return bk.replay_kernel(p)
    return sweep.replay(p)
