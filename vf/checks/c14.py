"""C14 - declared scheme applicability is truthful; complete data is never refused.

[PxS] Engine F: for every configuration (including nested ones) and enumerated dataset, with the scheme symbolic, on each
      path first alg.is_scoring_scheme_relevant_when_incomplete_rankings(scheme) is asked (must answer a bool without
      failing; the answer forks the path into scheme classes), then compute_consensus_rankings runs on the same objects:
      complete data: never refused; incomplete data and answer True: a well-formed consensus; for Borda, PickAPerm and
      BioConsert started from them: refusal (documented exception) exactly when the answer was False.
"""
import z3
from vf import harness, sweep, fork, spec, shapes
from vf.harness import STATS

PID = "C14"
REFUSERS = {"Borda", "Borda(bucket_id)", "PickAPerm", "BioCo", "BioConsert[Borda]", "BioConsert[PickAPerm]", "BioConsert[KwikSort,Borda]",
            "BioConsert[Copeland,PickAPerm]", "BioConsert[Borda,Copeland]", "BioConsert[PickAPerm,Borda]"}
CFGS = ["BioConsert", "BioConsert[Copeland]", "BioConsert[Borda]", "BioConsert[PickAPerm]", "BioConsert[KwikSort,Borda]", "BioConsert[Borda,Copeland]",
        "BioConsert[PickAPerm,Borda]", "BioCo", "BioConsert[BioCo]", "BioConsert[Copeland,BioCo]", "BioConsert[BioConsert[PickAPerm]]",
        "ParCons(1,BioConsert[BioCo])",
        "KwikSortRandom", "Borda", "Borda(bucket_id)", "Copeland", "PickAPerm", "ExactPulp", "ExactCplex(noopt)", "ExactCplex(opt)",
        "ExactCplexOptim1", "Exact(opt)", "Exact(opt,nocplex)", "ParCons", "ParCons(nocplex)", "ParCons(1,BioConsert)", "ParCons(1,Copeland)",
        "ParCons(2,Borda,nocplex)"]


def item(args):
    cfg, lvs, names, flag, _ = args[:5]
    hist = args[6] if len(args) > 6 else None
    sweep.install()
    out = []
    ds = shapes.build(lvs, names) if hist is None else None
    lvs0 = lvs
    B, T = fork.scheme_vars()
    sc = fork.make_scheme(B, T)
    ex = fork.Explorer(fork.valid_scheme(B, T), max_paths=int(2e5))

    def path(ctx):
        nonlocal ds, lvs
        if hist is not None:
            # aggregate once (primes whatever the library caches), edit the dataset in place, then ask and aggregate again
            ds = shapes.build(lvs0, names)
            try:
                a0, _ = sweep.make_config(cfg, [])
                a0.compute_consensus_rankings(ds, sc, flag)
                ds.unified_rankings(), ds.get_positions(), ds.universe
            except harness.HarnessError:
                raise
            except harness.Inconclusive:
                raise
            except Exception:  # noqa
                pass
            lvs = sweep.apply_history(ds, lvs0, names, hist)
        log = []
        alg, _ = sweep.make_config(cfg, log)
        try:
            rel = alg.is_scoring_scheme_relevant_when_incomplete_rankings(sc)
        except harness.HarnessError:
            raise
        except Exception as e:  # noqa
            rel = e
        o = sweep.observe(ctx, cfg, lvs, names, flag, B, T, sc, ds, alg=alg)
        o.log = log
        if isinstance(rel, Exception):
            sweep.prove(o, False, f"is_scoring_scheme_relevant_when_incomplete_rankings raised {type(rel).__name__}: {rel}", "predicate-raises", out)
            return
        if not isinstance(rel, bool):
            sweep.prove(o, False, f"is_scoring_scheme_relevant_when_incomplete_rankings returned {rel!r}, not a bool", "predicate-type", out)
            return
        refusal = o.exc is not None and type(o.exc).__name__ in sweep.REFUSALS[:2]
        if o.exc is not None and not refusal:
            sweep.chk_crash(o, out)
            return
        if o.complete:
            if refusal:
                sweep.prove(o, False, f"complete dataset refused ({type(o.exc).__name__})", "complete-refused", out, extra={"declared": rel})
            else:
                sweep.chk_wellformed(o, out)
            return
        if rel and refusal:
            sweep.prove(o, False, f"scheme declared relevant but the incomplete dataset was refused ({type(o.exc).__name__})", "declared-true-refused", out,
                        extra={"declared": rel})
            return
        if cfg in REFUSERS and not rel and not refusal:
            sweep.prove(o, False, "scheme declared not relevant but the incomplete dataset was accepted", "declared-false-accepted", out,
                        extra={"declared": rel})
            return
        if not refusal:
            sweep.chk_wellformed(o, out)
    ex.explore(path)
    if hist is not None:
        for pl in out:
            pl["history"] = {"first": shapes.raw_json(lvs0, names), "op": list(hist)}
            pl["signature"] = dict(pl["signature"], history=hist[0])
    STATS.sample({"config": cfg, "dataset": shapes.raw_json(lvs0, names), "history": list(hist) if hist else None, "scheme": "12 symbolic reals",
                  "predicate asked first": True}, cap=8)
    return out


def jit_conformance(run):
    """[trace validation, not the deciding step] see sweep.jit_conformance; C14's verdict on each outcome"""
    def judge(job, o, base):
        refusal = o["exc"] is not None and o["exc"][0] in sweep.REFUSALS[:2]
        if not isinstance(o["rel"], bool):
            return dict(base, what=f"{job['config']}: predicate on a scheme written as {job['writing']}: {o['rel']}", check="predicate-raises")
        if o["exc"] is not None and not refusal:
            return dict(base, what=f"{job['config']}: valid scheme written as {job['writing']}: raised {o['exc'][0]}: {o['exc'][1]} (compiled kernels)", check="raises")
        if refusal and o["complete"]:
            return dict(base, what=f"{job['config']}: complete dataset refused for a scheme written as {job['writing']}", check="complete-refused")
        if refusal and o["rel"]:
            return dict(base, what=f"{job['config']}: declared relevant but refused, scheme written as {job['writing']}", check="declared-true-refused")
        if not refusal and sweep.jit_illformed(job, o):
            return dict(base, what=f"{job['config']}: ill-formed consensus {o['consensus']} for a scheme written as {job['writing']}", check="wf")
        return None
    sweep.jit_conformance(run, CFGS, judge)


def run(run):
    sweep.install()
    if run.thorough:
        light = {(1, 1): None, (2, 1): None, (2, 2): None, (3, 1): None, (3, 2): 150, (4, 1): 10}
        heavy = {(2, 2): None, (3, 1): None, (3, 2): 30}
    else:
        light = {(1, 1): None, (2, 1): None, (2, 2): None, (3, 1): None, (3, 2): 20, (4, 1): 2}
        heavy = {(2, 2): 8, (3, 1): 2, (3, 2): 3}
    run.assumptions = ["dataset shapes enumerated, scheme symbolic on every path", "ILP solvers replaced by stand-ins", "float64 modelled as exact reals"]
    run.outside = ["n > 4, m > 2", "user-defined algorithms as starters / auxiliaries"]
    run.rule = "one item per (configuration, dataset); per path: predicate answer and outcome of compute are compared structurally; paths = scheme classes x algorithm paths"
    # two components that both need a sub-problem (n=6): ParCons' decoding of several sub-problem results
    st = {"ParCons": [("two_cycles6", 2 if not run.thorough else None)], "ParCons(nocplex)": [("two_cycles6", 1)], "ParCons(1,Copeland)": [("two_cycles6", 2 if not run.thorough else None)]}
    items = sweep.make_items(run, CFGS, [], flags=(True,), light=light, heavy=heavy, strata=st)
    items += sweep.history_items(run, [c for c in CFGS if c not in sweep.HEAVY or c in ("BioCo", "BioConsert[Borda]")], [], 4 if run.thorough else 2)
    run.pmap("applicability", item, sweep.order_items(items), chunksize=1)
    run.part("jit-conformance", lambda: jit_conformance(run))
    run.extra["work_items"] = len(items)
    run.extra["stubs"] = sweep.install()


def replay(p):
    from corankco.dataset import Dataset
    from corankco.scoringscheme import ScoringScheme
    from vf import standins
    sweep.install()
    chk = p["check"]
    sc = ScoringScheme(p["scheme_written"]) if "scheme_written" in p else ScoringScheme([[float(x) for x in v] for v in p["scheme"]])
    if "history" in p:
        from corankco.element import Element
        ds = Dataset.from_raw_list(shapes.from_json(p["history"]["first"]))
        try:
            a0, _ = sweep.make_config(p["config"], [])
            a0.compute_consensus_rankings(ds, sc, p["flag"])
            ds.unified_rankings(), ds.get_positions(), ds.universe
        except Exception:  # noqa
            pass
        if p["history"]["op"][0] == "empty":
            ds.remove_empty_rankings()
        else:
            names0 = sorted({x for r in p["history"]["first"] for b in r for x in b}, key=str)
            ds.remove_elements({Element(x) for x in names0 if x not in {y for r in p["rankings"] for b in r for y in b}})
    else:
        ds = Dataset.from_raw_list(shapes.from_json(p["rankings"]))
    standins.PINNED[:] = [c[1] for c in p.get("choices", [])]
    alg, _ = sweep.make_config(p["config"], [])
    if p["config"] in ("ExactPulp", "Exact(opt,nocplex)", "ParCons(nocplex)", "ParCons(2,Borda,nocplex)"):
        standins.uninstall_pulp()
    try:
        rel = alg.is_scoring_scheme_relevant_when_incomplete_rankings(sc)
    except Exception as e:  # noqa
        return chk == "predicate-raises", f"predicate raised {type(e).__name__}: {e}"
    if chk == "predicate-raises":
        return False, f"predicate answered {rel}"
    if not isinstance(rel, bool):
        return chk == "predicate-type", f"predicate returned {rel!r}"
    try:
        cons = alg.compute_consensus_rankings(ds, sc, p["flag"])
        exc = None
    except Exception as e:  # noqa
        exc = e
    refusal = exc is not None and type(exc).__name__ in sweep.REFUSALS[:2]
    uni_ = {x for r in p["rankings"] for b in r for x in b}
    is_complete = all({x for b in r for x in b} == uni_ for r in p["rankings"])     # from the raw rankings, not from the library's flag
    if chk == "raises":
        return exc is not None and not refusal, f"raised {type(exc).__name__}: {exc}" if exc is not None else "no exception"
    if chk == "complete-refused":
        return is_complete and refusal, f"complete={is_complete}, refused={refusal}"
    if chk == "declared-true-refused":
        return rel and refusal and not is_complete, f"declared {rel}, refused={refusal} ({type(exc).__name__ if exc else None})"
    if chk == "declared-false-accepted":
        return (not rel) and exc is None and not is_complete, f"declared {rel}, accepted={exc is None}"
    return sweep.replay(p)
