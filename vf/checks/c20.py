"""C20 - random dataset generators deliver valid datasets of the requested shape.

[S]   Engine M, inductive, on the real sources of Ranking's six Markov moves and of the two step functions: state = a
      bucket-id vector of n elements (n <= 5, thorough 6) with the set of missing elements; invariant: entries in
      -1..n-1, -1 exactly for the missing elements, ranked ids dense from 0.  One call of each move with a symbolic element
      index, and one call of each step function with randint an arbitrary value of its range, preserve the invariant (in
      complete mode nothing becomes missing).  With the concrete initial vector this covers walks of any number of steps.
[P]   Engine F on generate_rankings / uniform_permutations / the two Dataset wrappers with the walk replaced by a havoc stub
      (any vector satisfying the invariant) and shuffle by an arbitrary permutation: buckets non-empty, disjoint, over
      0..n-1; complete => m rankings containing all n elements and flagged complete; permutations of 1..n; the only
      failure is EmptyDatasetException when every ranking lost every element.
"""
import itertools, random as pyrandom
import numpy as np
import z3
from vf import harness, merge, fork, spec, shapes
from vf.harness import STATS

PID = "C20"
MOVES = ["__add_left", "__add_right", "__change_left", "__change_right", "__remove_element", "__put_element_first"]


def inv(r, miss, n):
    cs = [z3.And(x >= -1, x < n) for x in r]
    mx = z3.IntVal(-1)
    for x in r:
        mx = z3.If(x > mx, x, mx)
    for k in range(n):
        cs.append(z3.Implies(k <= mx, z3.Or(*[x == k for x in r])))
    for e in range(n):
        cs.append(merge.to_z3(miss[e]) == (r[e] == -1))
    return z3.And(*cs)


def sel(vec, idx):
    res = vec[-1]
    for j in reversed(range(len(vec) - 1)):
        res = z3.If(idx == j, vec[j], res)
    return res


def move_check(args):
    n, name = args
    from corankco.ranking import Ranking
    import random
    out = []
    for complete in ((True, False) if name in ("__step_element_complete", "__add_left", "__add_right", "__change_left", "__change_right") else (False,)):
        if name == "__step_element_incomplete" and complete:
            continue
        I = merge.new_interp(unwind=n + 3)
        r, rv = merge.sym_array(I, "r", (n,))
        elem = z3.Int("elem")
        mb = [z3.Bool(f"miss{e}") for e in range(n)]
        ms = merge.MSet(mb)
        pre = [inv(rv, mb, n), elem >= 0, elem < n]
        rnd_vars = []

        def m_randint(I_, a, b):
            v = z3.Int(f"alea{len(rnd_vars)}")
            rnd_vars.append((v, a, b))
            return v
        I.models[random.randint] = m_randint
        cur = sel(rv, elem)
        if name == "__put_element_first":
            pre.append(cur == -1)
        elif name in MOVES:
            pre.append(cur >= 0)
        if complete or name == "__step_element_complete":
            pre += [x >= 0 for x in rv]
        fn = Ranking.__dict__["_Ranking" + name]
        if name == "__step_element_incomplete":
            I.call_function(fn, [r, elem, ms])
        else:
            I.call_function(fn, [r, elem])
            # the callers update the missing set around these two moves
            if name == "__remove_element":
                ms.add(elem)
            if name == "__put_element_first":
                ms.remove(elem)
        STATS.encoded.update(I.ctx.encoded)
        for v, a, b in rnd_vars:
            pre.append(z3.And(v >= a, v <= b))
        outv = [merge.to_z3(x) for x in merge.cells_of(I, r)]
        s = harness.solver()
        s.add(*pre)
        if harness.check(s, "vacuity") != "sat":
            if n == 1:
                continue
            raise harness.HarnessError("vacuous precondition")
        post = [inv(outv, ms.m, n)]
        if complete or name == "__step_element_complete":
            post += [x >= 0 for x in outv]
        rr, mdl = harness.refute(s, "property", z3.Not(z3.And(*post)))
        if rr == "sat":
            out.append({"signature": {"site": "Ranking." + name, "class": "invariant"}, "kind": "move", "name": name, "n": n, "complete": bool(complete or name == "__step_element_complete"),
                        "what": f"{name} (n={n}, {'complete' if complete else 'incomplete'} mode) breaks the dense-numbering invariant",
                        "r": [harness.zval(mdl, x) for x in rv], "elem": harness.zval(mdl, elem), "alea": [harness.zval(mdl, v) for v, _, _ in rnd_vars]})
        elif rr != "unsat":
            raise harness.Inconclusive(name)
        for txt, r2, mdl2 in merge.discharge_obligations(I, s):
            if mdl2 is None:
                raise harness.Inconclusive(txt)
            out.append({"signature": {"site": "Ranking." + name, "class": "obligation"}, "kind": "move", "name": name, "n": n, "complete": False,
                        "what": f"{name}: {txt}", "r": [harness.zval(mdl2, x) for x in rv], "elem": harness.zval(mdl2, elem), "alea": [harness.zval(mdl2, v) for v, _, _ in rnd_vars]})
        STATS.states += 1
    STATS.sample({"kernel": "Ranking." + name, "n": n, "state": "any vector satisfying the invariant, symbolic element index, arbitrary random draw"})
    return out


def walk_check(args):
    """the two walk loops (__change_ranking_complete / _incomplete) for a concrete number of steps: every random draw is an
    arbitrary value of its range; drawing from an empty range (ValueError) is an obligation; the invariant is preserved"""
    n, name, steps = args
    from corankco.ranking import Ranking
    import random
    out = []
    I = merge.new_interp(unwind=n + 3)
    r, rv = merge.sym_array(I, "r", (n,))
    mb = [z3.Bool(f"miss{e}") for e in range(n)]
    ms = merge.MSet(mb)
    pre = [inv(rv, mb, n)]
    complete = name.endswith("_complete")
    if complete:
        pre += [x >= 0 for x in rv]
    rnd_vars = []

    def m_randint(I_, a, b):
        v = z3.Int(f"rand{len(rnd_vars)}")
        rnd_vars.append((v, a, b))
        I_.ctx.obligations.append((True, merge.to_z3(a) <= merge.to_z3(b), "randint range non-empty (ValueError otherwise)"))
        return v

    def m_randrange(I_, a, b=None, step=1):
        if b is None:
            a, b = 0, a
        v = z3.Int(f"rand{len(rnd_vars)}")
        rnd_vars.append((v, a, b - 1))
        I_.ctx.obligations.append((True, merge.to_z3(a) < merge.to_z3(b), "randrange range non-empty (ValueError otherwise)"))
        return v
    I.models[random.randint] = m_randint
    I.models[random.randrange] = m_randrange
    fn = Ranking.__dict__["_Ranking" + name]
    if complete:
        I.call_function(fn, [r, steps, n])
    else:
        I.call_function(fn, [r, steps, n, ms])
    STATS.encoded.update(I.ctx.encoded)
    for v, a, b in rnd_vars:
        pre.append(z3.And(v >= a, v <= b))
    outv = [merge.to_z3(x) for x in merge.cells_of(I, r)]
    s = harness.solver()
    s.add(*[p for p in pre])
    post = [inv(outv, ms.m, n)] + ([x >= 0 for x in outv] if complete else [])

    def cex(mdl, what):
        return {"signature": {"site": "Ranking." + name, "class": what.split(":")[0]}, "kind": "walk", "name": name, "n": n, "steps": steps, "complete": complete,
                "what": f"{name} (n={n}, {steps} steps): {what}", "r": [harness.zval(mdl, x) for x in rv], "draws": [harness.zval(mdl, v) for v, _, _ in rnd_vars]}
    # obligations on the ranges do not depend on the values drawn: check them without the range constraints
    s0 = harness.solver()
    s0.add(inv(rv, mb, n), *([x >= 0 for x in rv] if complete else []))
    for g, f, txt in I.ctx.obligations:
        if "range non-empty" in txt:
            r_, mdl = harness.refute(s0, "index-bounds", z3.Not(merge.to_z3(f)))
            if r_ == "sat":
                out.append(cex(mdl, "range: " + txt))
                return out
            if r_ != "unsat":
                raise harness.Inconclusive(txt)
    I.ctx.obligations = [o for o in I.ctx.obligations if "range non-empty" not in o[2]]
    if harness.check(s, "vacuity") != "sat":
        raise harness.HarnessError("vacuous precondition")
    rr, mdl = harness.refute(s, "property", z3.Not(z3.And(*post)))
    if rr == "sat":
        out.append(cex(mdl, "invariant: the walk breaks the dense-numbering invariant"))
    elif rr != "unsat":
        raise harness.Inconclusive(name)
    for txt, r2, mdl2 in merge.discharge_obligations(I, s):
        if mdl2 is None:
            raise harness.Inconclusive(txt)
        out.append(cex(mdl2, "obligation: " + txt))
    STATS.states += 1
    STATS.sample({"kernel": "Ranking." + name, "n": n, "steps": steps, "draws": "arbitrary values of their ranges"})
    return out


def valid_vectors(n, complete):
    """all vectors satisfying the invariant"""
    return [v for v in shapes.rankings_over(n, allow_empty=True) if not complete or -1 not in v]


def wrapper_item(args):
    n, m, complete, which = args
    from corankco.ranking import Ranking
    from corankco.dataset import Dataset, EmptyDatasetException
    import corankco.ranking as RK
    out = []
    vecs = valid_vectors(n, complete)
    ex = fork.Explorer([], max_paths=int(3e5))
    perms = list(itertools.permutations(range(n)))

    def path(ctx):
        pre_broken = []

        def havoc_inc(ranking, steps, nb_elements, missing):
            # the stub stands for the walk proved in the [S] part: its precondition (the invariant) must hold on entry
            if set(missing) != {e for e in range(nb_elements) if ranking[e] == -1}:
                pre_broken.append(f"walk entered with ranking {list(ranking)} but missing set {sorted(missing)}")
            v = vecs[ctx.choose(len(vecs), "walk")]
            ranking[:] = v
            missing.clear()
            missing.update(e for e in range(nb_elements) if v[e] == -1)

        def havoc_comp(ranking, steps, nb_elements):
            v = vecs[ctx.choose(len(vecs), "walk")]
            ranking[:] = v

        def sym_shuffle(lst):
            p = perms[ctx.choose(len(perms), "shuffle")] if len(lst) == n else tuple(range(len(lst)))
            lst[:] = [lst[i] for i in p]
        saved = (Ranking._Ranking__change_ranking_incomplete, Ranking._Ranking__change_ranking_complete, RK.shuffle)
        Ranking._Ranking__change_ranking_incomplete = staticmethod(havoc_inc)
        Ranking._Ranking__change_ranking_complete = staticmethod(havoc_comp)
        RK.shuffle = sym_shuffle
        try:
            try:
                if which == "generate_rankings":
                    res = Ranking.generate_rankings(n, m, 7, complete)
                    ds = None
                elif which == "markov_dataset":
                    ds = Dataset.get_random_dataset_markov(n, m, 7, complete)
                    res = ds.rankings
                elif which == "uniform_permutations":
                    res = Ranking.uniform_permutations(n, m)
                    ds = None
                else:
                    ds = Dataset.get_uniform_permutation_dataset(n, m)
                    res = ds.rankings
            except EmptyDatasetException:
                picks = [c[1] for c in ctx.choices if c[0] == "walk"]
                if which == "markov_dataset" and not complete and all(all(x == -1 for x in vecs[i]) for i in picks):
                    return
                out.append(pay(ctx, "EmptyDatasetException although some ranking kept elements"))
                return
            except Exception as e:  # noqa
                out.append(pay(ctx, f"raised {type(e).__name__}: {e}"))
                return
        finally:
            Ranking._Ranking__change_ranking_incomplete, Ranking._Ranking__change_ranking_complete, RK.shuffle = \
                staticmethod(saved[0]) if not isinstance(saved[0], staticmethod) else saved[0], \
                staticmethod(saved[1]) if not isinstance(saved[1], staticmethod) else saved[1], saved[2]
        if pre_broken:
            out.append(pay(ctx, "invariant broken at the entry of a walk: " + pre_broken[0]))
            return
        uniform = which.startswith("uniform")
        lo = 1 if uniform else 0
        for r in res:
            seen = []
            for b in r:
                if len(b) == 0:
                    out.append(pay(ctx, f"empty bucket in {r}"))
                    return
                for e in b:
                    if e.type is not int or not lo <= e.value < n + lo:
                        out.append(pay(ctx, f"element {e} outside {lo}..{n - 1 + lo}"))
                        return
                    seen.append(e.value)
            if len(seen) != len(set(seen)):
                out.append(pay(ctx, f"overlapping buckets in {r}"))
                return
            if (complete or uniform) and sorted(seen) != list(range(lo, n + lo)):
                out.append(pay(ctx, f"complete generation but {r} does not contain all {n} elements"))
                return
            if uniform and any(len(b) != 1 for b in r):
                out.append(pay(ctx, f"uniform permutation with a tie: {r}"))
                return
        if (complete or uniform) and len(res) != m:
            out.append(pay(ctx, f"{len(res)} rankings instead of {m}"))
            return
        if ds is not None and (complete or uniform) and not (ds.is_complete and ds.nb_rankings == m and ds.nb_elements == n):
            out.append(pay(ctx, f"dataset flags: complete={ds.is_complete}, {ds.nb_rankings} rankings, {ds.nb_elements} elements"))
            return
        if ds is not None and uniform and not ds.without_ties:
            out.append(pay(ctx, "uniform permutation dataset not flagged without ties"))

    def pay(ctx, what):
        return {"signature": {"site": which, "class": what.split(" ")[0]}, "kind": "wrapper", "what": f"{which}(n={n}, m={m}, complete={complete}): {what}",
                "n": n, "m": m, "complete": complete, "which": which,
                "walks": [list(vecs[c[1]]) for c in ctx.choices if c[0] == "walk"], "shuffles": [list(perms[c[1]]) for c in ctx.choices if c[0] == "shuffle"]}
    ex.explore(path)
    STATS.sample({"wrapper": which, "n": n, "m": m, "complete": complete, "walk": "havoc: any vector satisfying the invariant"})
    return out


def validate_moves(seed, rounds):
    """translation validation: Engine M in concrete mode vs the real moves"""
    from corankco.ranking import Ranking
    rnd = pyrandom.Random(seed)
    for _ in range(rounds):
        n = rnd.randint(1, 5)
        v = list(rnd.choice(valid_vectors(n, False)))
        name = rnd.choice(MOVES)
        cand = [e for e in range(n) if (v[e] == -1) == (name == "__put_element_first")]
        if not cand:
            continue
        e = rnd.choice(cand)
        real = np.array(v, dtype=int)
        Ranking.__dict__["_Ranking" + name].__func__(real, e)
        I = merge.new_interp()
        a = merge.const_array(I, (n,), v)
        I.call_function(Ranking.__dict__["_Ranking" + name], [a, e])
        if [int(x) for x in merge.cells_of(I, a)] != [int(x) for x in real]:
            raise harness.HarnessError(f"Engine M disagrees with the real {name} on {v}, elem {e}")
        STATS.validated += 1


def run(run):
    fork.install_shims()
    names = MOVES + ["__step_element_incomplete", "__step_element_complete"]
    ns = [1, 2, 3, 4, 5, 6] if run.thorough else [1, 2, 3, 4, 5]
    kern = [(n, nm) for n in ns for nm in names]
    wr = []
    for which in ("generate_rankings", "markov_dataset"):
        for complete in (False, True):
            for n, m in ([(1, 1), (1, 2), (2, 1), (2, 2), (3, 1), (3, 2)] + ([(3, 3), (4, 1), (4, 2)] if run.thorough else [(4, 1)])):
                wr.append((n, m, complete, which))
    for which in ("uniform_permutations", "uniform_dataset"):
        for n, m in [(1, 1), (2, 2), (3, 2), (4, 1)]:
            wr.append((n, m, True, which))
    run.bounds = {"moves and steps [S] (n, function)": f"n in {ns}, functions {names}", "wrappers [P] (n, m)": "n <= 3 (thorough 4), m <= 2 (thorough 3), both completeness options"}
    run.assumptions = ["randint returns an arbitrary value of its range", "missing-element set modelled by one boolean per element",
                       "wrappers: the walk is replaced by a havoc stub constrained by the invariant proved in the [S] part (assume-guarantee)",
                       "shuffle returns an arbitrary permutation"]
    run.outside = ["n = 0", "n > 6 for the moves", "statistical properties of the generators"]
    run.rule = "moves: one invariant query + obligations per (n, function, mode); wrappers: every combination of havoc vectors / permutations is one path"
    run.part("validate_moves", lambda: validate_moves(run.seed, 60))
    run.pmap("moves", move_check, kern)
    walks = [(n, nm, st) for n in ([1, 2, 3] if not run.thorough else [1, 2, 3, 4]) for nm in ("__change_ranking_complete", "__change_ranking_incomplete") for st in (1, 2)]
    run.bounds["walk loops [S] (n, function, steps)"] = walks
    run.pmap("walks", walk_check, walks)
    run.pmap("wrappers", wrapper_item, wr)


def replay(p):
    from corankco.ranking import Ranking
    if p["kind"] == "walk":
        import corankco.ranking as RK
        n = p["n"]
        r = np.array(p["r"], dtype=int)
        draws = list(p["draws"])
        saved = (RK.randint, getattr(RK, "randrange", None))
        RK.randint = lambda a, b: (draws.pop(0) if draws else a) if a <= b else (_ for _ in ()).throw(ValueError(f"empty range for randint({a}, {b})"))
        if saved[1] is not None:
            RK.randrange = lambda a, b=None, step=1: (draws.pop(0) if draws else a) if (b if b is not None else a) > (a if b is not None else 0) else (_ for _ in ()).throw(ValueError("empty range in randrange"))
        miss = {e for e in range(n) if r[e] == -1}
        try:
            if p["complete"]:
                Ranking.__dict__["_Ranking" + p["name"]].__func__(r, p["steps"], n)
            else:
                Ranking.__dict__["_Ranking" + p["name"]].__func__(r, p["steps"], n, miss)
        except Exception as e:  # noqa
            return True, f"{p['name']}({p['r']}, steps={p['steps']}) raised {type(e).__name__}: {e}"
        finally:
            RK.randint = saved[0]
            if saved[1] is not None:
                RK.randrange = saved[1]
        ids = sorted(set(int(x) for x in r if x != -1))
        ok = ids == list(range(len(ids))) and miss == {e for e in range(n) if r[e] == -1} and (not p["complete"] or all(x >= 0 for x in r))
        return (not ok), f"{p['name']}({p['r']}, draws={p['draws']}) -> {list(r)}, missing={sorted(miss)}"
    if p["kind"] == "move":
        n = p["n"]
        r = np.array(p["r"], dtype=int)
        name = p["name"]
        if name.startswith("__step"):
            import corankco.ranking as RK
            al = list(p["alea"])
            saved = RK.randint
            RK.randint = lambda a, b: al.pop(0) if al else a
            miss = {e for e in range(n) if r[e] == -1}
            try:
                if name == "__step_element_incomplete":
                    Ranking._Ranking__step_element_incomplete(r, p["elem"], miss)
                else:
                    Ranking._Ranking__step_element_complete(r, p["elem"])
            finally:
                RK.randint = saved
        else:
            miss = {e for e in range(n) if r[e] == -1}
            Ranking.__dict__["_Ranking" + name].__func__(r, p["elem"])
            if name == "__remove_element":
                miss.add(p["elem"])
            if name == "__put_element_first":
                miss.discard(p["elem"])
        ids = sorted(set(int(x) for x in r if x != -1))
        ok = ids == list(range(len(ids))) and all(-1 <= x < n for x in r) and miss == {e for e in range(n) if r[e] == -1}
        if p.get("complete"):
            ok = ok and all(x >= 0 for x in r)
        return (not ok), f"{name}({p['r']}, elem={p['elem']}, alea={p['alea']}) -> {list(r)}, missing={sorted(miss)}"
    # wrapper: re-run with the pinned havoc vectors
    res = wrapper_replay(p)
    return res


def wrapper_replay(p):
    from corankco.ranking import Ranking
    from corankco.dataset import Dataset, EmptyDatasetException
    import corankco.ranking as RK
    walks, shuf = [list(w) for w in p["walks"]], [list(s) for s in p["shuffles"]]
    n, m, complete, which = p["n"], p["m"], p["complete"], p["which"]

    broken = []

    def h_inc(ranking, steps, nb, missing):
        if set(missing) != {e for e in range(nb) if ranking[e] == -1}:
            broken.append(f"walk entered with ranking {list(ranking)} but missing set {sorted(missing)}")
        v = walks.pop(0)
        ranking[:] = v
        missing.clear(); missing.update(e for e in range(nb) if v[e] == -1)

    def h_comp(ranking, steps, nb):
        ranking[:] = walks.pop(0)

    def shf(lst):
        s = shuf.pop(0) if shuf else list(range(len(lst)))
        lst[:] = [lst[i] for i in s]
    Ranking._Ranking__change_ranking_incomplete = staticmethod(h_inc)
    Ranking._Ranking__change_ranking_complete = staticmethod(h_comp)
    RK.shuffle = shf
    try:
        if which == "generate_rankings":
            res = Ranking.generate_rankings(n, m, 7, complete)
        elif which == "markov_dataset":
            res = Dataset.get_random_dataset_markov(n, m, 7, complete).rankings
        elif which == "uniform_permutations":
            res = Ranking.uniform_permutations(n, m)
        else:
            res = Dataset.get_uniform_permutation_dataset(n, m).rankings
    except EmptyDatasetException:
        return any(any(x != -1 for x in w) for w in p["walks"]), "EmptyDatasetException"
    except Exception as e:  # noqa
        return True, f"raised {type(e).__name__}: {e}"
    if broken:
        return True, "invariant broken at the entry of a walk: " + broken[0]
    lo = 1 if which.startswith("uniform") else 0
    for r in res:
        seen = [e.value for b in r for e in b]
        if any(len(b) == 0 for b in r) or len(seen) != len(set(seen)) or any(not lo <= x < n + lo for x in seen):
            return True, f"ill-formed ranking {r}"
        if (complete or lo) and sorted(seen) != list(range(lo, n + lo)):
            return True, f"{r} does not contain all elements"
    if (complete or lo) and len(res) != m:
        return True, f"{len(res)} rankings instead of {m}"
    return False, "valid"
