"""C12 - Borda orders elements by mean positional score, per the documented variants.

[PxS] Engine F on the real BordaCount (both tie-handling variants) over enumerated real datasets; the symbolic scheme is
      classified by the library's own equivalence tests (forks).  The oracle computes the exact means (Fractions) under
      the two regimes of the statement (unranked = one last bucket / unranked skipped) - order of rankings and element
      names do not enter it.  On each path: the result equals one of the two oracle rankings; equal to the 'last bucket'
      one only if the scheme is a positive multiple of a unifying scheme (p = 1 or 0.5), to the 'skipped' one only if it is
      a multiple of an induced-measure scheme; a refusal (documented exception) only for incomplete data and a scheme in
      none of the four families.  [P] a history: Borda after an in-place removal of an element.
"""
import itertools
from fractions import Fraction
import z3
from vf import harness, sweep, fork, spec, shapes
from vf.harness import STATS
from vf.checks.c19 import proportional

PID = "C12"
U1 = ([0, 1, 1, 0, 1, 1], [1, 1, 0, 1, 1, 0])
U05 = ([0, 1, Fraction(1, 2), 0, 1, Fraction(1, 2)], [Fraction(1, 2), Fraction(1, 2), 0, Fraction(1, 2), Fraction(1, 2), 0])
I1 = ([0, 1, 1, 0, 0, 0], [1, 1, 0, 0, 0, 0])
I05 = ([0, 1, Fraction(1, 2), 0, 0, 0], [Fraction(1, 2), Fraction(1, 2), 0, 0, 0, 0])


def fam(o, f):
    return proportional(o.B, o.T, [z3.RealVal(str(x)) for x in f[0]], [z3.RealVal(str(x)) for x in f[1]], 6)


def borda_oracle(lvs, present, bucket_id, unify):
    """ranking (level vector) by increasing mean score; tied iff equal means"""
    tot = {e: Fraction(0) for e in present}
    cnt = {e: 0 for e in present}
    for r in lvs:
        r = sweep.unified(r, present) if unify else r
        bks = spec.buckets_of(r)
        before = 0
        for i, b in enumerate(bks):
            for e in b:
                tot[e] += i if bucket_id else before
                cnt[e] += 1
            before += len(b)
    means = {e: tot[e] / cnt[e] for e in present if cnt[e] > 0}
    vals = sorted(set(means.values()))
    n = max(present) + 1 if present else 0
    lv = [-1] * (len(lvs[0]) if lvs else n)
    for e, m in means.items():
        lv[e] = vals.index(m)
    return tuple(lv)


def chk_borda(o, out):
    bid = "bucket_id" in o.cfg
    r_unif = borda_oracle(o.lvs, o.present, bid, True)
    r_ind = borda_oracle(o.lvs, o.present, bid, False)
    unif = z3.Or(fam(o, U1), fam(o, U05))
    ind = z3.Or(fam(o, I1), fam(o, I05))
    if o.exc is not None:
        if type(o.exc).__name__ == "ScoringSchemeNotHandledException":
            if o.complete:
                sweep.prove(o, False, "complete dataset refused", "refused-complete", out)
            else:
                sweep.prove(o, z3.Not(z3.Or(unif, ind)), "incomplete dataset refused although the scheme belongs to an accepted family", "refusal", out)
        return
    if o.rankings is None or len(o.rankings) != 1:
        sweep.prove(o, False, "ill-formed consensus", "order", out)
        return
    canon = lambda lv: tuple(spec.levels_of(spec.buckets_of(lv), o.n))  # noqa
    got = canon(o.rankings[0])
    if got != canon(r_unif) and got != canon(r_ind):
        sweep.prove(o, False, f"result {spec.buckets_of(got)} is neither the 'last bucket' mean ranking {spec.buckets_of(r_unif)} nor the "
                              f"'skipped' mean ranking {spec.buckets_of(r_ind)}", "order", out)
        return
    if o.complete:
        return
    if canon(r_unif) == canon(r_ind):
        sweep.prove(o, z3.Or(unif, ind), "incomplete dataset accepted with a scheme outside the four families", "refusal", out)
    elif got == canon(r_unif):
        sweep.prove(o, unif, "unranked elements counted as a last bucket although the scheme is not a unifying one", "regime", out)
    else:
        sweep.prove(o, z3.And(ind, z3.Not(unif)), "unranked elements skipped although the scheme is not an induced-measure one", "regime", out)


def history_item(args):
    """Borda after an in-place removal of one element (the dataset object is reused)"""
    cfg, lvs, names, e = args
    sweep.install()
    from corankco.element import Element
    out = []
    B, T = fork.scheme_vars()
    sc = fork.make_scheme(B, T)
    ex = fork.Explorer(fork.valid_scheme(B, T))
    lv2 = tuple(tuple(-1 if i == e else v for i, v in enumerate(r)) for r in lvs)
    lv2 = tuple(spec.levels_of(spec.buckets_of(r), len(names)) for r in lv2 if any(v != -1 for v in r))

    def path(ctx):
        ds = shapes.build(lvs, names)
        try:
            alg0, _ = sweep.make_config(cfg, [])
            alg0.compute_consensus_rankings(ds, sc, True)       # primes whatever the library caches
        except Exception:  # noqa
            pass
        ds.remove_elements({Element(names[e])})
        o = sweep.observe(ctx, cfg, lv2, names, True, B, T, sc, ds)
        sweep.chk_crash(o, out)
        chk_borda(o, out)
        if not out:
            sweep.chk_wellformed(o, out)
        for pl in out:
            pl["history"] = {"first": shapes.raw_json(lvs, names), "removed": names[e]}
    ex.explore(path)
    STATS.sample({"history": "remove_elements then Borda", "dataset": shapes.raw_json(lvs, names), "removed": names[e]})
    return out


def run(run):
    sweep.install()
    if run.thorough:
        light = {(1, 1): None, (1, 2): None, (2, 1): None, (2, 2): None, (3, 1): None, (3, 2): None, (3, 3): 400, (4, 1): None, (4, 2): 300}
        nh = 80
    else:
        light = {(1, 1): None, (1, 2): None, (2, 1): None, (2, 2): None, (3, 1): None, (3, 2): 200, (3, 3): 40, (4, 2): 30}
        nh = 20
    run.assumptions = ["dataset shapes enumerated; scheme symbolic, classified by the library's own tests on each path",
                       "the four accepted families: unifying p=1, unifying p=0.5, induced p=1, induced p=0.5 and their positive multiples",
                       "oracle means are exact fractions; the library's float means are assumed exact for these sizes"]
    run.outside = ["n > 4, m > 3", "float rounding of means for large datasets"]
    run.rule = "one item per (variant, dataset); per path: result equals an oracle ranking (structural) and regime/refusal matches the scheme family (solver)"
    items = sweep.make_items(run, ["Borda", "Borda(bucket_id)"], [chk_borda, "wellformed"], flags=(True,), light=light, heavy=light)
    run.pmap("borda", sweep.run_item, items, chunksize=4)
    import random
    rnd = random.Random(run.seed)
    pool = [d for d in sweep.dataset_pool(3, 2) if all(sum(1 for v in r if v != -1) >= 2 for r in d)] + \
           [d for d in shapes.sample(sweep.dataset_pool(4, 2), 200, run.seed) if all(sum(1 for v in r if v != -1) >= 2 for r in d)]
    hist = [(("Borda", "Borda(bucket_id)")[i % 2], d, sweep.NAMINGS[len(d[0])][i % 3], rnd.randrange(len(d[0]))) for i, d in enumerate(rnd.sample(pool, nh))]
    run.bounds["history (remove one element in place, then Borda)"] = len(hist)
    run.pmap("history", history_item, hist)
    run.extra["work_items"] = len(items) + len(hist)


def replay(p):
    from corankco.dataset import Dataset
    from corankco.scoringscheme import ScoringScheme
    from corankco.algorithms.borda.borda import BordaCount
    from corankco.element import Element
    sc = ScoringScheme([[float(x) for x in v] for v in p["scheme"]])
    if "history" in p:
        ds = Dataset.from_raw_list(shapes.from_json(p["history"]["first"]))
        try:
            BordaCount(use_bucket_id="bucket_id" in p["config"]).compute_consensus_rankings(ds, sc, True)
        except Exception:  # noqa
            pass
        ds.remove_elements({Element(p["history"]["removed"])})
    else:
        ds = Dataset.from_raw_list(shapes.from_json(p["rankings"]))
    bid = "bucket_id" in p["config"]
    names, _ = sweep.concrete_levels(p)
    n = len(names)
    lvs = []
    for r in p["rankings"]:
        lv = [-1] * n
        for i, b in enumerate(r):
            for x in b:
                lv[names.index(x)] = i
        lvs.append(tuple(lv))
    present = list(range(n))
    complete = all(-1 not in r for r in lvs)
    r_unif, r_ind = borda_oracle(lvs, present, bid, True), borda_oracle(lvs, present, bid, False)

    def infam(f):
        lam = sc.b_vector[1]
        return all(abs(sc.b_vector[i] - lam * float(f[0][i])) < 1e-12 and abs(sc.t_vector[i] - lam * float(f[1][i])) < 1e-12 for i in range(6))
    unif, ind = infam(U1) or infam(U05), infam(I1) or infam(I05)
    try:
        cons = BordaCount(use_bucket_id=bid).compute_consensus_rankings(ds, sc, True)
    except Exception as e:  # noqa
        if type(e).__name__ == "ScoringSchemeNotHandledException":
            return complete or unif or ind, f"refused; complete={complete} unifying={unif} induced={ind}"
        return True, f"raised {type(e).__name__}: {e}"
    try:
        got = shapes.ranking_levels(cons.consensus_rankings[0], names)
    except Exception as e:  # noqa
        return True, f"consensus {cons} contains foreign elements"
    canon = lambda lv: tuple(spec.levels_of(spec.buckets_of(lv), n))  # noqa
    exp = canon(r_unif) if (unif or complete) else canon(r_ind) if ind else None
    if exp is None:
        return True, "incomplete dataset accepted with a scheme outside the four families"
    return canon(got) != exp, f"Borda returned {cons}, oracle {spec.buckets_of(exp)} (names {names})"
