"""C19 - scoring schemes: validation, scaling and equivalence behave as documented.

Engine F on the real ScoringScheme methods, every number symbolic [S]:
 * constructor on 12 unconstrained reals: on every path the outcome (accepted / which exception) equals the spec;
   malformed shapes and types enumerated [P];
 * scheme * k for symbolic k > 0: new object, every penalty = k * old, original untouched, result valid; Kemeny
   scores scale by k on a set of (dataset, candidate) shapes (polynomial identities);
 * is_equivalent_to / is_equivalent_to_on_complete_rankings_only on two valid symbolic schemes: result <=> one is a
   positive multiple of the other on both vectors (first three entries for the complete variant);
 * get_nickname = name of the first preset family the scheme is a positive multiple of.
"""
import builtins, itertools
import z3
from vf import harness, fork, spec, shapes
from vf.fork import SNum
from vf.harness import STATS

PID = "C19"


def install_float_shims():
    import corankco.scoringscheme as S

    def sym_float(x=0.0):
        return x if builtins.isinstance(x, SNum) else builtins.float(x)

    def sym_isinstance(o, t):
        if t is sym_float:
            t = builtins.float
        if builtins.isinstance(o, SNum) and t in (builtins.float, int):
            return t is builtins.float
        return builtins.isinstance(o, t)
    S.isinstance = sym_isinstance
    S.float = sym_float
    return {"corankco.scoringscheme.isinstance/float": "treat symbolic reals as floats"}


def valid_z(B, T):
    return z3.And(*fork.valid_scheme(B, T))


def ctor_check(_):
    from corankco.scoringscheme import ScoringScheme
    out = []
    B, T = fork.scheme_vars()
    ex = fork.Explorer([])

    def path(ctx):
        pen = [[fork.wrap(x) for x in B], [fork.wrap(x) for x in T]]
        try:
            sc = ScoringScheme(pen)
            res = "accepted"
        except Exception as e:  # noqa
            res = type(e).__name__
            sc = None
        neg = z3.Or(*[x < 0 for x in B + T])
        expected = z3.If(neg, 0, z3.If(valid_z(B, T), 2, 1))
        got = {"NonRealPositiveValuesScoringScheme": 0, "ForbiddenAssociationPenaltiesScoringScheme": 1, "accepted": 2}.get(res, 3)
        mdl = ctx.prove(expected == got)
        if mdl is not None:
            out.append({"signature": {"site": "ScoringScheme.__init__", "class": res}, "what": f"constructor outcome '{res}' differs from the documented rule",
                        "kind": "ctor", "penalties": fork.scheme_values(mdl, B, T), "outcome": res})
            return
        if sc is not None:
            # stored values = given values, in a fresh list
            ok = z3.And(*[fork.term(a) == b for a, b in zip(sc.b_vector + sc.t_vector, B + T)])
            if ctx.prove(ok) is not None:
                out.append({"signature": {"site": "ScoringScheme.__init__", "class": "stored"}, "what": "stored penalties differ from the given ones",
                            "kind": "ctor", "penalties": fork.scheme_values(ctx.model or ctx.solver.model(), B, T), "outcome": "alias"})
    ex.explore(path)
    STATS.sample({"target": "ScoringScheme(12 unconstrained symbolic reals)", "paths": STATS.paths})
    return out


MALFORMED = [None, 3, "abc", [], [[0, 1, 1, 0, 1, 1]], [[0, 1, 1, 0, 1, 1], [1, 1, 0, 1, 1, 0], [1, 1, 0, 1, 1, 0]],
             ([0, 1, 1, 0, 1, 1], [1, 1, 0, 1, 1, 0]), [(0, 1, 1, 0, 1, 1), [1, 1, 0, 1, 1, 0]], [[0, 1, 1, 0, 1], [1, 1, 0, 1, 1, 0]],
             [[0, 1, 1, 0, 1, 1], [1, 1, 0, 1, 1, 0, 0]], [[0, 1, 1, 0, 1, 1], "110110"], [[0, 1, 1, 0, 1, 1], None],
             {0: [0, 1, 1, 0, 1, 1], 1: [1, 1, 0, 1, 1, 0]}]
BADTYPE = ["1", None, [1], 1j]


def malformed_check(_):
    from corankco.scoringscheme import ScoringScheme, InvalidScoringScheme, NonRealPositiveValuesScoringScheme
    out = []

    def expect(pen, exc, label):
        try:
            ScoringScheme(pen)
            got = "accepted"
        except Exception as e:  # noqa
            got = type(e).__name__
        STATS.q["malformed:checked"] += 1
        if got != exc.__name__:
            out.append({"signature": {"site": "ScoringScheme.__init__", "class": "malformed"}, "kind": "malformed", "label": label,
                        "what": f"malformed input {label}: got {got}, documented {exc.__name__}", "expected": exc.__name__})
    for i, pen in enumerate(MALFORMED):
        expect(pen, InvalidScoringScheme, f"shape#{i}")
    for j, bad in enumerate(BADTYPE):
        for vec in (0, 1):
            for pos in (0, 3, 5):
                pen = [[0, 1, 1, 0, 1, 1], [1, 1, 0, 1, 1, 0]]
                pen[vec][pos] = bad
                expect(pen, NonRealPositiveValuesScoringScheme, f"type#{j}@{vec},{pos}")
    return out


def mul_check(_):
    from corankco.scoringscheme import ScoringScheme
    from corankco.kemeny_score_computation import KemenyComputingFactory
    from corankco.ranking import Ranking
    out = []
    B, T = fork.scheme_vars()
    k = z3.Real("k")
    ex = fork.Explorer(fork.valid_scheme(B, T) + [k > 0], timeout_ms=120000)
    cases = [(((0, 1, 2), (2, -1, 0)), (0, 0, 1)), (((0, 0, -1), (-1, 0, 1), (1, 0, 0)), (1, 0, 2)), (((-1, -1, 0),), (0, 0, 0))]

    def path(ctx):
        sc = fork.make_scheme(B, T)
        before = [list(sc.b_vector), list(sc.t_vector)]
        for left in (True, False):
            try:
                sc2 = sc * fork.wrap(k) if left else fork.wrap(k) * sc
            except Exception as e:  # noqa
                out.append({"signature": {"site": "ScoringScheme.__mul__", "class": "raises"}, "kind": "mul",
                            "what": f"scheme * k raised {type(e).__name__}: {e}", "penalties": fork.scheme_values(ctx.solver.model() if ctx.model is None else ctx.model, B, T) if False else None,
                            "k": None})
                return
            if sc2 is sc or sc2.penalty_vectors is sc.penalty_vectors:
                out.append({"signature": {"site": "ScoringScheme.__mul__", "class": "alias"}, "kind": "mul", "what": "scheme * k is not a new object", "k": None, "penalties": None})
                return
            same = all(fork.lift(a).sexpr() == fork.lift(b).sexpr() for a, b in zip(before[0] + before[1], sc.b_vector + sc.t_vector))
            ok = z3.And(*[fork.term(n) == o * k for n, o in zip(sc2.b_vector + sc2.t_vector, B + T)])
            mdl = ctx.prove(ok)
            if mdl is not None or not same:
                m = mdl or ctx.model
                out.append({"signature": {"site": "ScoringScheme.__mul__", "class": "values"}, "kind": "mul",
                            "what": "scheme * k: penalties are not k * old, or the original was modified",
                            "penalties": fork.scheme_values(m, B, T) if m is not None else None, "k": harness.zval(m, k) if m is not None else None})
                return
            if left:
                for lvs, cand in cases:
                    ds = shapes.build(lvs, [1, 2, 3])
                    r = Ranking([{e + 1 for e in b} for b in spec.buckets_of(cand)])
                    s1 = KemenyComputingFactory(sc).get_kemeny_score(r, ds)
                    s2 = KemenyComputingFactory(sc2).get_kemeny_score(r, ds)
                    mdl = ctx.prove(fork.term(s2) == fork.term(s1) * k)
                    if mdl is not None:
                        out.append({"signature": {"site": "ScoringScheme.__mul__", "class": "score"}, "kind": "mul",
                                    "what": "Kemeny score does not scale by k", "penalties": fork.scheme_values(mdl, B, T), "k": harness.zval(mdl, k)})
                        return
    ex.explore(path)
    STATS.sample({"target": "scheme * k, symbolic k > 0, 12 symbolic penalties", "paths": STATS.paths})
    return out


def proportional(aB, aT, bB, bT, stop):
    """a is a positive multiple of b on the first `stop` entries of both vectors"""
    cs = []
    for i in range(stop):
        cs.append(aB[i] * bB[1] == bB[i] * aB[1])
        cs.append(aT[i] * bB[1] == bT[i] * aB[1])
    return z3.And(*cs)


def equiv_check(stop):
    out = []
    B1, T1 = fork.scheme_vars("a")
    B2, T2 = fork.scheme_vars("b")
    ex = fork.Explorer(fork.valid_scheme(B1, T1) + fork.valid_scheme(B2, T2), timeout_ms=120000)

    def path(ctx):
        a, b = fork.make_scheme(B1, T1), fork.make_scheme(B2, T2)
        try:
            res = a.is_equivalent_to(b) if stop == 6 else a.is_equivalent_to_on_complete_rankings_only(b)
        except Exception as e:  # noqa
            res = f"raises {type(e).__name__}"
        exp = proportional(B1, T1, B2, T2, stop)
        if res is True:
            phi = exp
        elif res is False:
            phi = z3.Not(exp)
        else:
            phi = False
        mdl = ctx.prove(phi)
        if mdl is not None:
            m2 = ctx.feasible(z3.And(z3.Not(phi) if phi is not False else z3.BoolVal(True),
                                     *[z3.Or(*[v == c for c in (0, 1, 2, 3)]) for v in B1 + T1 + B2 + T2]), "replay-model", soft_timeout_ms=5000)
            m = m2 or mdl
            out.append({"signature": {"site": "is_equivalent_to" if stop == 6 else "is_equivalent_to_on_complete_rankings_only", "class": str(res)},
                        "kind": "equiv", "stop": stop, "a": fork.scheme_values(m, B1, T1), "b": fork.scheme_values(m, B2, T2), "result": str(res),
                        "what": f"equivalence test (first {stop} entries) answers {res} against the definition"})
    ex.explore(path)
    STATS.sample({"target": f"a.is_equivalent_to(b) on the first {stop} entries, 24 symbolic reals", "paths": STATS.paths})
    return out


PRESETS = [("UKSP", [0, 1, 1, 0, 1, 1], [1, 1, 0, 1, 1, 0]), ("GPDP", [0, 1, 1, 0, 1, 0], [1, 1, 0, 1, 1, 0]),
           ("IGKS", [0, 1, 1, 0, 0, 0], [1, 1, 0, 0, 0, 0]), ("EKS", [0, 1, 0, 0, 0, 0], [1, 1, 0, 1, 1, 1])]


def nickname_check(_):
    out = []
    B, T = fork.scheme_vars()
    ex = fork.Explorer(fork.valid_scheme(B, T), timeout_ms=120000)

    def path(ctx):
        sc = fork.make_scheme(B, T)
        try:
            nick = sc.get_nickname()
        except Exception as e:  # noqa
            nick = f"raises {type(e).__name__}"
        fam = [proportional(B, T, [z3.RealVal(x) for x in pb], [z3.RealVal(x) for x in pt], 6) for _, pb, pt in PRESETS]
        if nick in [p[0] for p in PRESETS]:
            i = [p[0] for p in PRESETS].index(nick)
            phi = z3.And(fam[i], *[z3.Not(f) for f in fam[:i]])
        elif nick.startswith("raises"):
            phi = False
        else:
            phi = z3.And(*[z3.Not(f) for f in fam])
        mdl = ctx.prove(phi)
        if mdl is not None:
            out.append({"signature": {"site": "get_nickname", "class": nick if len(nick) < 8 else "str"}, "kind": "nickname",
                        "penalties": fork.scheme_values(mdl, B, T), "result": nick if len(nick) < 8 else "<str(scheme)>",
                        "what": f"nickname {nick if len(nick) < 8 else 'str(self)'} does not follow from the equivalence classes"})
    ex.explore(path)
    STATS.sample({"target": "get_nickname() on a valid symbolic scheme", "paths": STATS.paths})
    return out


def dispatch(arg):
    kind, x = arg
    return {"ctor": ctor_check, "malformed": malformed_check, "mul": mul_check, "equiv": equiv_check, "nick": nickname_check}[kind](x)


def run(run):
    sh = fork.install_shims()
    run.assumptions = ["float64 modelled as exact reals (ratio test of is_equivalent_to decided over the reals)",
                       "symbolic reals are treated as floats by isinstance/float inside corankco.scoringscheme"]
    run.outside = ["NaN / inf penalties", "float64 rounding of the ratio test", "bool entries (Python treats them as ints)"]
    run.rule = "every feasible path of each method on fully symbolic inputs; one query per path: outcome <=> specification"
    run.bounds = {"constructor": "12 unconstrained reals + %d malformed shapes + %d ill-typed entries" % (len(MALFORMED), len(BADTYPE) * 6),
                  "scaling": "12 valid symbolic penalties, symbolic factor k > 0, 3 (dataset, candidate) shapes for score homogeneity",
                  "equivalence": "two valid symbolic schemes (24 reals), both variants", "nickname": "12 valid symbolic penalties"}
    run.exhaustive = True
    jobs = [("ctor", 0), ("malformed", 0), ("mul", 0), ("equiv", 6), ("equiv", 3), ("nick", 0)]
    run.pmap("dispatch", dispatch, jobs)
    run.extra["stubs"] = sh


def replay(p):
    from corankco.scoringscheme import ScoringScheme
    k = p["kind"]
    if k == "ctor":
        pen = [[float(x) for x in p["penalties"][0]], [float(x) for x in p["penalties"][1]]]
        try:
            ScoringScheme(pen)
            got = "accepted"
        except Exception as e:  # noqa
            got = type(e).__name__
        B, T = pen
        if any(x < 0 for x in B + T):
            exp = "NonRealPositiveValuesScoringScheme"
        elif B[0] == 0 and B[1] > 0 and B[3] <= B[4] and T[0] == T[1] and T[2] == 0 and T[3] == T[4]:
            exp = "accepted"
        else:
            exp = "ForbiddenAssociationPenaltiesScoringScheme"
        return got != exp, f"ScoringScheme({pen}) -> {got}, documented {exp}"
    if k == "malformed":
        lab = p["label"]
        if lab.startswith("shape#"):
            pen = MALFORMED[int(lab[6:])]
        else:
            j, rest = lab[5:].split("@")
            vec, pos = map(int, rest.split(","))
            pen = [[0, 1, 1, 0, 1, 1], [1, 1, 0, 1, 1, 0]]
            pen[vec][pos] = BADTYPE[int(j)]
        try:
            ScoringScheme(pen)
            got = "accepted"
        except Exception as e:  # noqa
            got = type(e).__name__
        return got != p["expected"], f"{lab}: {got}, documented {p['expected']}"
    if k == "equiv":
        a = ScoringScheme([[float(x) for x in v] for v in p["a"]])
        b = ScoringScheme([[float(x) for x in v] for v in p["b"]])
        stop = p["stop"]
        try:
            got = a.is_equivalent_to(b) if stop == 6 else a.is_equivalent_to_on_complete_rankings_only(b)
        except Exception as e:  # noqa
            return True, f"raised {type(e).__name__}: {e}"
        lam = a.b_vector[1] / b.b_vector[1]
        exp = all(abs(a.b_vector[i] - lam * b.b_vector[i]) < 1e-12 and abs(a.t_vector[i] - lam * b.t_vector[i]) < 1e-12 for i in range(stop))
        return got != exp, f"a={a} b={b}: library says {got}, definition says {exp}"
    if k == "nickname":
        sc = ScoringScheme([[float(x) for x in v] for v in p["penalties"]])
        got = sc.get_nickname()
        exp = str(sc)
        for nm, pb, pt in PRESETS:
            lam = sc.b_vector[1]
            if all(abs(sc.b_vector[i] - lam * pb[i]) < 1e-12 and abs(sc.t_vector[i] - lam * pt[i]) < 1e-12 for i in range(6)):
                exp = nm
                break
        return got != exp, f"{sc}: nickname {got}, expected {exp}"
    if k == "mul":
        if p.get("penalties") is None:
            sc = ScoringScheme.get_unifying_scoring_scheme()
            kk = 2.5
        else:
            sc = ScoringScheme([[float(x) for x in v] for v in p["penalties"]])
            kk = float(p["k"])
        before = [list(sc.b_vector), list(sc.t_vector)]
        try:
            s2 = sc * kk
        except Exception as e:  # noqa
            return True, f"scheme * {kk} raised {type(e).__name__}: {e}"
        bad = s2 is sc or [list(sc.b_vector), list(sc.t_vector)] != before or \
            any(abs(n - o * kk) > 1e-9 for n, o in zip(s2.b_vector + s2.t_vector, before[0] + before[1]))
        if bad:
            return True, f"{before} * {kk} -> {s2}"
        from corankco.kemeny_score_computation import KemenyComputingFactory
        from corankco.ranking import Ranking
        for lvs, cand in [(((0, 1, 2), (2, -1, 0)), (0, 0, 1)), (((0, 0, -1), (-1, 0, 1), (1, 0, 0)), (1, 0, 2)), (((-1, -1, 0),), (0, 0, 0))]:
            ds = shapes.build(lvs, [1, 2, 3])
            r = Ranking([{e + 1 for e in b} for b in spec.buckets_of(cand)])
            a = KemenyComputingFactory(sc).get_kemeny_score(r, ds)
            b = KemenyComputingFactory(s2).get_kemeny_score(r, ds)
            if abs(b - kk * a) > 1e-9 * max(1.0, abs(b)):
                return True, f"score under {s2} is {b}, expected {kk} * {a}"
        return False, f"{before} * {kk} -> {s2}, scores scale"
    raise harness.HarnessError("unknown kind")
