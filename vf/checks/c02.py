"""C02 - pairwise cost table matches the definition, is mirror-consistent, is the same from positions and
bucket ids, and sums to the Kemeny score.

[S]  Engine M on the real source of _pairwise_cost_matrix_only: n x m symbolic level matrix, 12 symbolic
     penalties; one query per output cell against the definition; mirror queries; order-isomorphic second
     matrix => identical table.
[PxS] Engine F on the real glue (Dataset.get_positions / get_bucket_ids -> pairwise_cost_matrix ->
     KemenyComputingFactory.get_kemeny_score) over enumerated real datasets with a symbolic scheme.
"""
import itertools, random
import numpy as np
import z3
from vf import harness, merge, spec, shapes, fork
from vf.harness import STATS

PID = "C02"


def kernel_check(args):
    n, m, part = args
    from corankco.algorithms import pairwisebasedalgorithm as P
    out = []
    I = merge.new_interp()
    positions, pv = merge.sym_array(I, "p", (n, m))
    pos = [[pv[e * m + r] for r in range(m)] for e in range(n)]
    B, T = fork.scheme_vars()
    scheme = merge.const_array(I, (2, 6), B + T)
    weights = merge.const_array(I, (m,), [1.0] * m)
    res = I.call_function(P._pairwise_cost_matrix_only, [positions, scheme, weights, n, m])
    STATS.encoded.update(I.ctx.encoded)
    pre = [z3.And(p >= -1, p < n) for p in pv] + fork.valid_scheme(B, T)
    s = harness.solver()
    s.add(*pre)
    if harness.check(s, "vacuity") != "sat":
        raise harness.HarnessError("precondition unsatisfiable")
    if res.shape != (n, n, 3):
        raise harness.HarnessError(f"unexpected result shape {res.shape}")
    exp = spec.cost_table_z(pos, n, m, B, T)
    got = [[[merge.to_z3(merge.cell(I, res, (x, y, k))) for k in range(3)] for y in range(n)] for x in range(n)]

    def cex(model, what, sig):
        P_ = [[harness.zval(model, pos[e][r]) for r in range(m)] for e in range(n)]
        return {"signature": {"site": "_pairwise_cost_matrix_only", "class": sig}, "what": what,
                "levels": [[P_[e][r] for e in range(n)] for r in range(m)],
                "scheme": fork.scheme_values(model, B, T)}

    if part == "cells":
        for x in range(n):
            for y in range(n):
                for k in range(3):
                    r, mdl = harness.refute(s, "property", got[x][y][k] != exp[x][y][k])
                    if r == "sat":
                        out.append(cex(mdl, f"table[{x}][{y}][{k}] differs from the definition (n={n}, m={m})", "cell"))
                    elif r != "unsat":
                        raise harness.Inconclusive("cell query unknown")
        for x in range(n):
            for y in range(x + 1, n):
                r, mdl = harness.refute(s, "property", z3.Or(got[x][y][0] != got[y][x][1], got[x][y][1] != got[y][x][0],
                                                              got[x][y][2] != got[y][x][2]))
                if r == "sat":
                    out.append(cex(mdl, f"table not mirror-consistent at ({x},{y})", "mirror"))
                elif r != "unsat":
                    raise harness.Inconclusive("mirror query unknown")
        bad = merge.discharge_obligations(I, s)
        for txt, r, mdl in bad:
            if mdl is None:
                raise harness.Inconclusive("obligation unknown: " + txt)
            out.append(cex(mdl, f"obligation failed: {txt}", "obligation"))
        STATS.sample({"kernel": "_pairwise_cost_matrix_only", "n": n, "m": m, "query": "cell (0,1,0)",
                      "term_size": len(str(got[0][1][0])) if n > 1 else 0})
    else:
        # second, order-isomorphic matrix => identical table
        I2 = merge.new_interp()
        positions2, qv = merge.sym_array(I2, "q", (n, m))
        q = [[qv[e * m + r] for r in range(m)] for e in range(n)]
        scheme2 = merge.const_array(I2, (2, 6), B + T)
        weights2 = merge.const_array(I2, (m,), [1.0] * m)
        res2 = I2.call_function(P._pairwise_cost_matrix_only, [positions2, scheme2, weights2, n, m])
        iso = [z3.And(v >= -1, v < 2 * n) for v in qv]
        for r_ in range(m):
            for e in range(n):
                iso.append((pos[e][r_] == -1) == (q[e][r_] == -1))
                for f in range(e + 1, n):
                    iso.append((pos[e][r_] < pos[f][r_]) == (q[e][r_] < q[f][r_]))
                    iso.append((pos[e][r_] == pos[f][r_]) == (q[e][r_] == q[f][r_]))
        s.add(*iso)
        if harness.check(s, "vacuity") != "sat":
            raise harness.HarnessError("iso precondition unsatisfiable")
        for x in range(n):
            for y in range(n):
                if x == y:
                    continue
                dif = z3.Or(*[got[x][y][k] != merge.to_z3(merge.cell(I2, res2, (x, y, k))) for k in range(3)])
                r, mdl = harness.refute(s, "property", dif)
                if r == "sat":
                    c = cex(mdl, f"table differs between order-isomorphic matrices at ({x},{y})", "iso")
                    c["levels2"] = [[harness.zval(mdl, q[e][r2]) for e in range(n)] for r2 in range(m)]
                    out.append(c)
                elif r != "unsat":
                    raise harness.Inconclusive("iso query unknown")
    STATS.states += 1
    return out


def validate_interpreter(seed, rounds):
    """translation validation: Engine M in concrete mode vs the real function on random concrete inputs"""
    from corankco.algorithms import pairwisebasedalgorithm as P
    rnd = random.Random(seed)
    for _ in range(rounds):
        n, m = rnd.randint(1, 5), rnd.randint(1, 4)
        pos = np.array([[rnd.randint(-1, n - 1) for _ in range(m)] for _ in range(n)], dtype=np.int32)
        pen = [[0.0, rnd.choice([1, 2, 0.5]), rnd.choice([0, 1, 0.25]), 1.0, rnd.choice([1.0, 3.0]), rnd.choice([0, 2.0])],
               [0.75, 0.75, 0.0, 0.5, 0.5, rnd.choice([0, 1.5])]]
        real = P._pairwise_cost_matrix_only(pos, np.asarray(pen), np.ones(m), n, m)
        I = merge.new_interp()
        a = merge.const_array(I, (n, m), [int(x) for x in pos.flatten()])
        sc = merge.const_array(I, (2, 6), pen[0] + pen[1])
        w = merge.const_array(I, (m,), [1.0] * m)
        res = I.call_function(P._pairwise_cost_matrix_only, [a, sc, w, n, m])
        mine = np.array([float(x) for x in merge.cells_of(I, res)]).reshape(n, n, 3)
        if not np.allclose(real, mine):
            raise harness.HarnessError("Engine M disagrees with the real kernel on a concrete input")
        STATS.validated += 1


def glue_item(args):
    lvs, names = args[:2]
    hist = args[2] if len(args) > 2 else None
    from corankco.algorithms.pairwisebasedalgorithm import PairwiseBasedAlgorithm
    from corankco.kemeny_score_computation import KemenyComputingFactory
    from corankco.ranking import Ranking
    out = []
    n = len(names)
    ds = shapes.build(lvs, names)
    lvs0 = lvs
    if hist is not None:
        # the table is built once (primes whatever the library caches), the dataset is edited in place, the table is built again
        from vf import sweep
        from corankco.scoringscheme import ScoringScheme
        PairwiseBasedAlgorithm.pairwise_cost_matrix(ds.get_positions(), ScoringScheme.get_unifying_scoring_scheme())
        ds.get_bucket_ids(), ds.universe, ds.unified_rankings()
        lvs = sweep.apply_history(ds, lvs, names, hist)
        if hist[0] == "remove":
            keep = [e for e in range(n) if e != hist[1]]
            names = [names[e] for e in keep]
            lvs = tuple(tuple(r[e] for e in keep) for r in lvs)
            n = len(names)
    if ds.nb_elements != n:
        raise harness.HarnessError("shape does not cover the universe")
    ids = shapes.ids_of(ds, names)
    B, T = fork.scheme_vars()
    sc = fork.make_scheme(B, T)
    ex = fork.Explorer(fork.valid_scheme(B, T))
    exp = spec.cost_table_c(lvs, n, B, T)
    cands = spec.level_vectors(n)

    def path(ctx):
        for which in ("positions", "bucket_ids"):
            mat = ds.get_positions() if which == "positions" else ds.get_bucket_ids()
            tab = PairwiseBasedAlgorithm.pairwise_cost_matrix(mat, sc)
            if tuple(tab.shape) != (n, n, 3):
                out.append(payload(None, f"table shape {tab.shape}", "shape"))
                return
            for x in range(n):
                for y in range(n):
                    for k in range(3):
                        g = fork.term(tab[ids[x]][ids[y]][k])
                        e = fork.term(exp[x][y][k]) if x != y else z3.RealVal(0)
                        mdl = ctx.prove(g == e)
                        if mdl is not None:
                            out.append(payload(mdl, f"{which}: table[{names[x]}][{names[y]}][{k}] differs from definition", "glue-cell"))
                            return
            if which == "positions":
                kf = KemenyComputingFactory(sc)
                for cand in cands:
                    r = Ranking([{names[e] for e in b} for b in spec.buckets_of(cand)])
                    sco = kf.get_kemeny_score(r, ds)
                    tot = z3.RealVal(0)
                    for x, y in itertools.combinations(range(n), 2):
                        k = 0 if cand[x] < cand[y] else 1 if cand[x] > cand[y] else 2
                        tot = tot + fork.term(tab[ids[x]][ids[y]][k])
                    mdl = ctx.prove(fork.term(sco) == tot)
                    if mdl is not None:
                        out.append(payload(mdl, f"selected entries do not add up to the Kemeny score of {cand}", "sum"))
                        return

    def payload(mdl, what, cls):
        return {"signature": {"site": "pairwise_cost_matrix glue", "class": cls, "history": hist[0] if hist else None}, "what": what,
                "history": {"first": shapes.raw_json(lvs0, args[1]), "op": list(hist)} if hist else None,
                "rankings": shapes.raw_json(lvs, names),
                "scheme": fork.scheme_values(mdl, B, T) if mdl is not None else [[0, 1, 1, 0, 1, 1], [1, 1, 0, 1, 1, 0]]}

    ex.explore(path)
    STATS.sample({"dataset": shapes.raw_json(lvs, names), "scheme": "12 symbolic reals", "candidates": len(cands)}, cap=10)
    return out


def run(run):
    fork.install_shims()
    if run.thorough:
        kern = [(5, 4, "cells"), (4, 3, "cells"), (3, 3, "iso"), (4, 2, "iso"), (2, 3, "cells"), (1, 1, "cells"), (3, 1, "cells")]
        glue_sets = [(1, 1), (1, 2), (2, 1), (2, 2), (3, 1), (3, 2), (2, 3)]
        extra4 = 400
    else:
        kern = [(4, 3, "cells"), (4, 2, "iso"), (3, 3, "iso"), (2, 3, "cells"), (2, 2, "cells"), (1, 1, "cells"), (3, 1, "cells")]
        glue_sets = [(1, 1), (1, 2), (2, 1), (2, 2), (3, 1), (3, 2)]
        extra4 = 200
    run.bounds = {"kernel [S]": [{"n": n, "m": m, "part": p} for n, m, p in kern],
                  "glue [PxS] exhaustive (n, m)": glue_sets, "glue n=4 m=2 sampled shapes": extra4,
                  "values": "levels in -1..n-1 (second matrix -1..2n-1)", "weights": "vector of ones"}
    run.assumptions = ["float64 modelled as exact reals", "ranking weights = ones (what every public entry point passes)",
                       "numpy models of Engine M validated differentially on this run",
                       "glue part: shapes enumerated, scheme symbolic"]
    run.outside = ["n > 5 or m > 4 for the kernel", "non-unit ranking weights", "float64 rounding, NaN/inf"]
    run.rule = ("kernel: one solver query per output cell / mirror pair / obligation; glue: one path per enumerated dataset, "
                "one query per cell and per candidate ranking; non-trivial = query whose precondition is satisfiable")
    run.part("validate_interpreter", lambda: validate_interpreter(run.seed, 25 if not run.thorough else 100))
    run.pmap("kernel_check", kernel_check, kern)
    items = []
    for n, m in glue_sets:
        namings = [list(range(1, n + 1)), ["b", "a", "c", "d"][:n]] if n > 1 else [[7]]
        for i, lvs in enumerate(shapes.datasets(n, m, allow_empty=(m > 1 and n <= 2))):
            items.append((lvs, namings[i % len(namings)]))
    rnd = random.Random(run.seed)
    r4 = shapes.rankings_over(4)
    for _ in range(extra4):
        lvs = (rnd.choice(r4), rnd.choice(r4))
        if all(any(r[e] != -1 for r in lvs) for e in range(4)):
            items.append((lvs, [4, 2, 3, 1]))
    base = [d for d in shapes.datasets(3, 2) if all(sum(1 for v in r if v != -1) >= 2 for r in d)]
    for i in range(60 if run.thorough else 16):
        d = rnd.choice(base)
        items.append((d + ((-1, -1, -1),), ["b", "a", "c"], ("empty",)) if i % 2 == 0 else (d, [1, 2, 3], ("remove", rnd.randrange(3))))
    run.bounds["glue histories (build table, edit the dataset in place, build again)"] = 60 if run.thorough else 16
    run.pmap("glue_item", glue_item, items, chunksize=8)
    run.extra["glue_datasets"] = len(items)


def replay(p):
    """whole property on one concrete instance through the public API, against the definition"""
    import fractions
    from corankco.dataset import Dataset
    from corankco.scoringscheme import ScoringScheme
    from corankco.ranking import Ranking
    from corankco.algorithms.pairwisebasedalgorithm import PairwiseBasedAlgorithm
    from corankco.kemeny_score_computation import KemenyComputingFactory
    if "rankings" in p:
        rj = p["rankings"]
    else:
        rj = []
        for lv in p["levels"]:
            levels = sorted(set(v for v in lv if v != -1))
            rj.append([[e + 1 for e in range(len(lv)) if lv[e] == l] for l in levels])
    names = sorted({x for r in rj for b in r for x in b}, key=str)
    n = len(names)
    if n == 0:
        return False, "empty universe"
    sc = ScoringScheme([[float(x) for x in p["scheme"][0]], [float(x) for x in p["scheme"][1]]])
    if p.get("history"):
        from corankco.element import Element
        ds = Dataset.from_raw_list(shapes.from_json(p["history"]["first"]))
        PairwiseBasedAlgorithm.pairwise_cost_matrix(ds.get_positions(), ScoringScheme.get_unifying_scoring_scheme())
        ds.get_bucket_ids(), ds.universe, ds.unified_rankings()
        if p["history"]["op"][0] == "empty":
            ds.remove_empty_rankings()
        else:
            names0 = sorted({x for r in p["history"]["first"] for b in r for x in b}, key=str)
            ds.remove_elements({Element(x) for x in names0 if x not in {y for r in rj for b in r for y in b}})
    else:
        ds = Dataset.from_raw_list(shapes.from_json(rj))
    B, T = sc.b_vector, sc.t_vector
    lvs = []
    for r in rj:
        lv = [-1] * n
        for i, b in enumerate(r):
            for x in b:
                lv[names.index(x)] = i
        lvs.append(lv)
    exp = spec.cost_table_c(lvs, n, B, T)
    ids = shapes.ids_of(ds, names)
    tabs = [PairwiseBasedAlgorithm.pairwise_cost_matrix(ds.get_positions(), sc),
            PairwiseBasedAlgorithm.pairwise_cost_matrix(ds.get_bucket_ids(), sc)]
    for w, tab in enumerate(tabs):
        for x in range(n):
            for y in range(n):
                for k in range(3):
                    e = exp[x][y][k] if x != y else 0.0
                    if abs(tab[ids[x]][ids[y]][k] - e) > 1e-9:
                        return True, f"table({'positions' if w == 0 else 'bucket ids'})[{names[x]}][{names[y]}][{k}]={tab[ids[x]][ids[y]][k]} definition={e}"
    kf = KemenyComputingFactory(sc)
    for cand in spec.level_vectors(n):
        r = Ranking([{names[e] for e in b} for b in spec.buckets_of(cand)])
        sco = kf.get_kemeny_score(r, ds)
        tot = sum(tabs[0][ids[x]][ids[y]][0 if cand[x] < cand[y] else 1 if cand[x] > cand[y] else 2]
                  for x, y in itertools.combinations(range(n), 2))
        if abs(sco - tot) > 1e-9:
            return True, f"candidate {cand}: kemeny score {sco} != sum of selected entries {tot}"
    return False, "table equals the definition on this instance"
