"""C06 - ParCons: the partition admits an optimal consensus; the optimality flag is truthful.

[PxS] Engine F, partition: OrderedPartition.parcons_partition on enumerated real datasets with the scheme symbolic
      (arcs of the graph of elements decided by forks, real igraph): on each path the partition is a partition of the
      universe and the solver refutes 'min over consistent rankings > global min' (min as ite-chains over all rankings
      with ties).
[PxS] Engine F, algorithm: ParCons with exact bound above / below the component sizes, auxiliary BioConsert / Copeland
      (recorded, so delegation is observable), CPLEX stand-in / absent: consensus consistent with the reported weak
      partitioning, which equals the library's ParCons partition; necessarily_optimal => global minimiser; flag set
      exactly when nothing was delegated.
"""
import itertools
import z3
from vf import harness, sweep, fork, spec, shapes
from vf.harness import STATS

PID = "C06"
CFGS = ["ParCons", "ParCons(nocplex)", "ParCons(1,Copeland)", "ParCons(2,Copeland)", "ParCons(1,BioConsert)", "ParCons(3,Copeland)"]


def zmin(ts):
    m = ts[0]
    for t in ts[1:]:
        m = z3.If(t < m, t, m)
    return m


def groups_to_ids(o, groups):
    """list of sets of Elements -> list of sets of harness ids; None if ill-formed"""
    idx = {(type(nm), nm): i for i, nm in enumerate(o.names)}
    res = []
    for g in groups:
        try:
            res.append({idx[(el.type, el.value)] for el in g})
        except Exception:  # noqa
            return None
    return res


def consistent(lv, groups):
    """ranking lv places every element of an earlier group strictly before every element of a later group"""
    for i, j in itertools.combinations(range(len(groups)), 2):
        for x in groups[i]:
            for y in groups[j]:
                if not lv[x] < lv[y]:
                    return False
    return True


def is_partition(o, groups):
    if groups is None:
        return False
    allx = [x for g in groups for x in g]
    return len(allx) == len(set(allx)) and set(allx) == set(o.present) and all(len(g) > 0 for g in groups)


def chk_partition(o, out):
    """the observation's consensus is unused: compute the partition on this path"""
    from corankco.partitioning.ordered_partition import OrderedPartition
    try:
        part = OrderedPartition.parcons_partition(o.ds, o.sc)
        groups = groups_to_ids(o, list(part))
    except Exception as e:  # noqa
        sweep.prove(o, False, f"parcons_partition raised {type(e).__name__}: {e}", "partition-raises", out)
        return
    if not is_partition(o, groups):
        sweep.prove(o, False, f"ParCons partition {list(part)} is not a partition of the universe", "partition-shape", out)
        return
    ws = sweep.weak_orders_present(o)
    cons = [w for w in ws if consistent(w, groups)]
    if not cons:
        sweep.prove(o, False, "no ranking is consistent with the partition", "partition-shape", out)
        return
    if len(cons) == len(ws):
        STATS.q["property:trivial"] += 1
        return
    sweep.prove(o, zmin([sweep.score_term(o, w) for w in cons]) <= zmin([sweep.score_term(o, w) for w in ws]),
                f"no optimal consensus is consistent with the ParCons partition {[sorted(g) for g in groups]}", "partition", out,
                extra={"partition": [sorted(o.names[x] for x in g) for g in groups]})


def chk_parcons(o, out):
    from corankco.consensus import ConsensusFeature
    from corankco.partitioning.ordered_partition import OrderedPartition
    if o.exc is not None or o.rankings is None:
        return
    lv = o.rankings[0]
    feats = o.cons.features
    wp = feats.get(ConsensusFeature.WEAK_PARTITIONING)
    if wp is None:
        sweep.prove(o, False, "weak partitioning not reported", "weakpart", out)
        return
    groups = groups_to_ids(o, wp)
    if not is_partition(o, groups) or not consistent(lv, groups):
        sweep.prove(o, False, f"consensus {spec.buckets_of(lv)} does not respect the reported weak partitioning {wp}", "weakpart", out)
        return
    lib = groups_to_ids(o, list(OrderedPartition.parcons_partition(o.ds, o.sc)))
    if lib != groups:
        sweep.prove(o, False, f"reported weak partitioning {wp} differs from parcons_partition {lib}", "weakpart", out)
        return
    delegated = len(o.log) > 0
    if bool(o.cons.necessarily_optimal) != (not delegated):
        sweep.prove(o, False, f"necessarily_optimal={o.cons.necessarily_optimal} although delegated={delegated}", "flag-exact", out)
        return
    sweep.chk_flag_truthful(o, out)


def sym_partition(args):
    """[S over datasets AND schemes]: parcons_partition on a SymDataset (all datasets with n elements, m rankings at once)"""
    n, m = args
    from vf import symds
    from corankco.partitioning.ordered_partition import OrderedPartition
    sweep.install()
    symds.install_kernel_dispatcher()
    out = []
    ds = symds.SymDataset(n, m)
    B, T = fork.scheme_vars()
    sc = fork.make_scheme(B, T)
    ws = spec.level_vectors(n)
    wt = {w: ds.score_term(w, B, T) for w in ws}
    ex = fork.Explorer(fork.valid_scheme(B, T) + ds.constraints(), max_paths=int(1e5), timeout_ms=300000)

    def pay(mdl, what, cls, groups):
        lvs = ds.levels_from(mdl)
        return {"signature": {"site": "parcons_partition(symbolic dataset)", "class": cls}, "what": what, "check": cls, "config": "Copeland", "flag": True,
                "rankings": shapes.raw_json(lvs, ds.names), "scheme": fork.scheme_values(mdl, B, T), "choices": [],
                "partition": [sorted(ds.names[x] for x in g) for g in groups]}

    def path(ctx):
        try:
            part = OrderedPartition.parcons_partition(ds, sc)
            groups = [{e.value - 1 for e in g} for g in part]
        except harness.HarnessError:
            raise
        except Exception as e:  # noqa
            ctx._ensure_model()
            out.append(pay(ctx.model, f"parcons_partition raised {type(e).__name__}: {e}", "partition-raises", []))
            return
        allx = [x for g in groups for x in g]
        if sorted(allx) != list(range(n)) or any(len(g) == 0 for g in groups):
            ctx._ensure_model()
            out.append(pay(ctx.model, f"{groups} is not a partition of the universe", "partition-shape", groups))
            return
        cons = [w for w in ws if consistent(w, groups)]
        if len(cons) == len(ws):
            STATS.q["property:trivial"] += 1
            return
        mdl = ctx.prove(zmin([wt[w] for w in cons]) <= zmin([wt[w] for w in ws]))
        if mdl is not None:
            out.append(pay(mdl, f"no optimal consensus is consistent with the ParCons partition {[sorted(g) for g in groups]}", "partition", groups))
    ex.explore(path)
    STATS.sample({"symbolic dataset": f"all datasets with n={n} elements and m={m} rankings (levels -1..{n - 1})", "scheme": "12 symbolic reals",
                  "paths (arc patterns)": STATS.paths})
    return out


def two_calls_item(args):
    """one ParCons object aggregates dataset A, then dataset B: what the first consensus reports (flag, weak partitioning,
    rankings) must not change, and the second result must satisfy the property as well"""
    cfg, lvA, lvB, names = args
    from corankco.consensus import ConsensusFeature
    sweep.install()
    out = []
    dsA, dsB = shapes.build(lvA, names), shapes.build(lvB, names)
    B, T = fork.scheme_vars()
    sc = fork.make_scheme(B, T)
    ex = fork.Explorer(fork.valid_scheme(B, T), max_paths=int(2e5))

    def view(c):
        wp = c.features.get(ConsensusFeature.WEAK_PARTITIONING)
        return (bool(c.necessarily_optimal), [sorted(str(e) for e in g) for g in wp] if wp is not None else None,
                [[sorted(str(e) for e in b) for b in r] for r in c.consensus_rankings])

    def path(ctx):
        log = []
        alg, _ = sweep.make_config(cfg, log)
        try:
            c1 = alg.compute_consensus_rankings(dsA, sc, True)
        except harness.HarnessError:
            raise
        except harness.Inconclusive:
            raise
        except Exception:  # noqa
            return
        v1 = view(c1)
        n1 = len(log)
        o = sweep.observe(ctx, cfg, lvB, names, True, B, T, sc, dsB, alg=alg)
        o.log = log[n1:]
        v1b = view(c1)
        if v1 != v1b:
            o.lvs = lvA
            pl = sweep.payload(o, None, f"what the first consensus reports changed after the same ParCons object aggregated another dataset: {v1} -> {v1b}", "stale-features")
            ctx._ensure_model()
            pl["scheme"] = fork.scheme_values(ctx.model, B, T)
            pl["second"] = shapes.raw_json(lvB, names)
            pl["rankings"] = shapes.raw_json(lvA, names)
            out.append(pl)
            return
        sweep.chk_crash(o, out)
        chk_parcons(o, out)
    ex.explore(path)
    STATS.sample({"config": cfg, "same ParCons object": [shapes.raw_json(lvA, names), shapes.raw_json(lvB, names)], "scheme": "12 symbolic reals"})
    return out


def run(run):
    sweep.install()
    if run.thorough:
        light = {(1, 1): None, (2, 1): None, (2, 2): None, (3, 1): None, (3, 2): None, (4, 1): None, (4, 2): 300}
        alg_light = {(1, 1): None, (2, 1): None, (2, 2): None, (3, 1): None, (3, 2): 200, (4, 1): 20, (4, 2): 8}
        alg_heavy = {(2, 2): None, (3, 1): None, (3, 2): 40}
        strata = {"*": ["cycles3", "comp3plus1"], "ParCons": ["cycles3", "comp3plus1", ("sparse4", 4)], "ParCons(3,Copeland)": ["two_cycles6", ("cycles43", None)]}
        strata_h = {"*": [("comp3plus1", 4)]}
    else:
        light = {(1, 1): None, (2, 1): None, (2, 2): None, (3, 1): None, (3, 2): 200, (4, 1): 20, (4, 2): 12}
        alg_light = {(1, 1): None, (2, 1): None, (2, 2): None, (3, 1): None, (3, 2): 40}
        alg_heavy = {(2, 2): 8, (3, 1): 4, (3, 2): 4}
        strata = {"ParCons": [("cycles3", 4), ("comp3plus1", 3)], "ParCons(nocplex)": [("cycles3", 2)],
                  "ParCons(3,Copeland)": [("two_cycles6", 2), ("cycles43", None)],
                  "ParCons(1,Copeland)": [("comp3plus1", 6), ("cycles3", 3)], "ParCons(2,Copeland)": [("comp3plus1", 6)]}
        strata_h = {}
    run.assumptions = ["dataset shapes enumerated, scheme symbolic on every path", "real igraph on the concrete graph of each path",
                       "exact sub-solver = CPLEX stand-in (any optimal solution) or real code path through the PuLP stand-in when CPLEX is absent",
                       "float64 modelled as exact reals"]
    run.outside = ["n > 4", "the default exact bound 80 is never exceeded (auxiliary branch reached with bounds 1 and 2)"]
    run.rule = "partition: one min-vs-min query per path; algorithm: structural checks + optimality query on flagged paths"
    items = sweep.make_items(run, ["Copeland"], [chk_partition], flags=(True,), light=light, heavy=light,
                             strata={"*": ["cycles3", "comp3plus1"]})
    items += sweep.history_items(run, ["Copeland"], [chk_partition], 40 if run.thorough else 12)
    part_bounds = run.bounds.pop("sweep (per configuration: shapes n, m; datasets explored / all)")
    run.pmap("partition", sweep.run_item, sweep.order_items(items), chunksize=2)
    symb = [(2, 2), (3, 1), (3, 2), (2, 3)] + ([(4, 1), (2, 4)] if run.thorough else [])
    run.bounds["partition on symbolic datasets [S over datasets and schemes] (n, m)"] = symb
    run.pmap("sym_partition", sym_partition, symb)
    items2 = sweep.make_items(run, CFGS, [chk_parcons, "wellformed"], flags=(True,), light=alg_light, heavy=alg_heavy,
                              strata=strata, strata_heavy=strata_h)
    run.bounds["partition sweep"] = part_bounds["Copeland"]
    run.pmap("algorithm", sweep.run_item, sweep.order_items(items2), chunksize=1)
    c3 = sweep.comp3plus1()
    tie4 = ((0, 0, 0, 0), (0, 0, 0, 0))
    two = [("ParCons(2,Copeland)", c3[0], tie4, sweep.NAMINGS[4][0]), ("ParCons(2,Copeland)", tie4, c3[0], sweep.NAMINGS[4][1]),
           ("ParCons(1,Copeland)", c3[4], c3[1], sweep.NAMINGS[4][2]), ("ParCons", c3[0], c3[5], sweep.NAMINGS[4][0])]
    if run.thorough:
        two += [("ParCons(2,Copeland)", c3[i], c3[(i + 3) % len(c3)], sweep.NAMINGS[4][i % 3]) for i in range(1, 7)]
    run.bounds["same ParCons object on two datasets"] = len(two)
    run.pmap("two_calls", two_calls_item, two)
    run.extra["work_items"] = len(items) + len(items2) + len(two)
    run.extra["stubs"] = sweep.install()


def replay(p):
    from corankco.partitioning.ordered_partition import OrderedPartition
    from corankco.consensus import ConsensusFeature
    chk = p["check"]
    if chk.startswith("partition"):
        from corankco.dataset import Dataset
        from corankco.scoringscheme import ScoringScheme
        sc = ScoringScheme([[float(x) for x in v] for v in p["scheme"]])
        ds = sweep.replay_dataset(p, sc)
        names, lvs = sweep.concrete_levels(p)
        try:
            part = [set(el.value for el in g) for g in OrderedPartition.parcons_partition(ds, sc)]
        except Exception as e:  # noqa
            return True, f"parcons_partition raised {type(e).__name__}: {e}"
        allx = [x for g in part for x in g]
        if sorted(allx, key=str) != sorted(names, key=str):
            return True, f"{part} is not a partition of {names}"
        best, bestc = None, None
        for pt in spec.ordered_partitions(names):
            clv = {x: i for i, b in enumerate(pt) for x in b}
            s = spec.score_c(clv, lvs, sc.b_vector, sc.t_vector, elems=names)
            ok = all(clv[x] < clv[y] for i, j in itertools.combinations(range(len(part)), 2) for x in part[i] for y in part[j])
            best = s if best is None or s < best else best
            if ok:
                bestc = s if bestc is None or s < bestc else bestc
        return bestc is None or bestc > best + 1e-9, f"partition {part}: best consistent score {bestc}, optimum {best}"
    if chk == "stale-features":
        from corankco.dataset import Dataset
        from corankco.scoringscheme import ScoringScheme
        sweep.install()
        sc = ScoringScheme([[float(x) for x in v] for v in p["scheme"]])
        alg, _ = sweep.make_config(p["config"], [])
        c1 = alg.compute_consensus_rankings(Dataset.from_raw_list(shapes.from_json(p["rankings"])), sc, True)
        v1 = (bool(c1.necessarily_optimal), str(c1.features.get(ConsensusFeature.WEAK_PARTITIONING)), str(c1.consensus_rankings))
        alg.compute_consensus_rankings(Dataset.from_raw_list(shapes.from_json(p["second"])), sc, True)
        v2 = (bool(c1.necessarily_optimal), str(c1.features.get(ConsensusFeature.WEAK_PARTITIONING)), str(c1.consensus_rankings))
        return v1 != v2, f"first consensus reported {v1}; after the same object aggregated {p['second']}: {v2}"
    ds, sc, alg, cons, exc, log = sweep.concrete_run(p)
    if exc is not None:
        return chk == "raises", f"raised {type(exc).__name__}: {exc}"
    names, lvs = sweep.concrete_levels(p)
    if chk in ("weakpart", "flag-exact"):
        wp = cons.features.get(ConsensusFeature.WEAK_PARTITIONING)
        lv = {el.value: i for i, b in enumerate(cons.consensus_rankings[0]) for el in b}
        part = [set(el.value for el in g) for g in wp]
        ok = all(lv[x] < lv[y] for i, j in itertools.combinations(range(len(part)), 2) for x in part[i] for y in part[j])
        lib = [set(el.value for el in g) for g in OrderedPartition.parcons_partition(ds, sc)]
        if chk == "weakpart":
            return (not ok) or lib != part, f"consensus {cons}, weak partitioning {wp}, parcons_partition {lib}"
        return bool(cons.necessarily_optimal) != (len(log) == 0), f"necessarily_optimal={cons.necessarily_optimal}, delegated components: {len(log)}"
    return sweep.replay(p)
