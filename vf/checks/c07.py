"""C07 - the ParFront partition is respected by every optimal consensus; consistent_with is exact.

[PxS] Engine F: OrderedPartition.parfront_partition on enumerated real datasets with the scheme symbolic (arcs and robust
      arcs decided by forks, real igraph): on each path the partition is a partition of the universe, is a merge of
      consecutive groups of the ParCons partition of the same path (order kept), and for every ranking with ties w that is
      NOT strictly consistent with it the solver refutes 'w is optimal' (score(w) <= every other score).
[P]   consistent_with: every (ordered partition, consensus) pair over <= 4 elements, including different universes,
      against the relation in the statement (structural; declared enumeration, no solver content).
"""
import itertools
import z3
from vf import harness, sweep, fork, spec, shapes
from vf.harness import STATS
from vf.checks.c06 import groups_to_ids, is_partition, consistent, zmin

PID = "C07"


def chk_parfront(o, out):
    from corankco.partitioning.ordered_partition import OrderedPartition
    try:
        pf = OrderedPartition.parfront_partition(o.ds, o.sc)
        pc = OrderedPartition.parcons_partition(o.ds, o.sc)
        gf, gc = groups_to_ids(o, list(pf)), groups_to_ids(o, list(pc))
    except Exception as e:  # noqa
        sweep.prove(o, False, f"parfront_partition raised {type(e).__name__}: {e}", "parfront-raises", out)
        return
    if not is_partition(o, gf):
        sweep.prove(o, False, f"ParFront partition {list(pf)} is not a partition of the universe", "parfront-shape", out)
        return
    # merge of consecutive ParCons groups, order kept
    flat_c = [sorted(g) for g in gc]
    i = 0
    ok = True
    for g in gf:
        acc = set()
        while i < len(gc) and acc != g and gc[i] <= g:
            acc |= gc[i]
            i += 1
        if acc != g:
            ok = False
            break
    if not ok or i != len(gc):
        sweep.prove(o, False, f"ParFront partition {[sorted(g) for g in gf]} is not a merge of consecutive groups of the ParCons partition {flat_c}",
                    "parfront-merge", out)
        return
    ws = sweep.weak_orders_present(o)
    wt = {w: sweep.score_term(o, w) for w in ws}
    bad = [w for w in ws if not consistent(w, gf)]
    if not bad:
        STATS.q["property:trivial"] += 1
        return
    mn = zmin(list(wt.values()))
    conj = [wt[w] > mn for w in bad]
    sweep.prove(o, z3.And(*conj), f"an optimal consensus does not respect the ParFront partition {[sorted(g) for g in gf]}", "parfront", out,
                extra={"partition": [sorted(o.names[x] for x in g) for g in gf]})


def sym_parfront(args):
    """[S over datasets AND schemes]: parfront_partition on a SymDataset"""
    n, m = args
    from vf import symds
    from corankco.partitioning.ordered_partition import OrderedPartition
    sweep.install()
    symds.install_kernel_dispatcher()
    out = []
    ds = symds.SymDataset(n, m)
    B, T = fork.scheme_vars()
    sc = fork.make_scheme(B, T)
    ws = spec.level_vectors(n)
    wt = {w: ds.score_term(w, B, T) for w in ws}
    mn = zmin(list(wt.values()))
    ex = fork.Explorer(fork.valid_scheme(B, T) + ds.constraints(), max_paths=int(1e5), timeout_ms=300000)

    def pay(mdl, what, cls, groups):
        lvs = ds.levels_from(mdl)
        return {"signature": {"site": "parfront_partition(symbolic dataset)", "class": cls}, "what": what, "check": cls, "config": "Copeland", "flag": True,
                "rankings": shapes.raw_json(lvs, ds.names), "scheme": fork.scheme_values(mdl, B, T), "choices": [],
                "partition": [sorted(ds.names[x] for x in g) for g in groups]}

    def path(ctx):
        try:
            gf = [{e.value - 1 for e in g} for g in OrderedPartition.parfront_partition(ds, sc)]
            gc = [{e.value - 1 for e in g} for g in OrderedPartition.parcons_partition(ds, sc)]
        except harness.HarnessError:
            raise
        except Exception as e:  # noqa
            ctx._ensure_model()
            out.append(pay(ctx.model, f"parfront_partition raised {type(e).__name__}: {e}", "parfront-raises", []))
            return
        allx = [x for g in gf for x in g]
        ok = sorted(allx) == list(range(n)) and all(len(g) > 0 for g in gf)
        i = 0
        for g in gf:
            acc = set()
            while i < len(gc) and acc != g and gc[i] <= g:
                acc |= gc[i]
                i += 1
            if acc != g:
                ok = False
        if not ok or i != len(gc):
            ctx._ensure_model()
            out.append(pay(ctx.model, f"ParFront {gf} is not a partition merging consecutive groups of ParCons {gc}", "parfront-merge", gf))
            return
        bad = [w for w in ws if not consistent(w, gf)]
        if not bad:
            STATS.q["property:trivial"] += 1
            return
        mdl = ctx.prove(z3.And(*[wt[w] > mn for w in bad]))
        if mdl is not None:
            out.append(pay(mdl, f"an optimal consensus does not respect the ParFront partition {[sorted(g) for g in gf]}", "parfront", gf))
    ex.explore(path)
    STATS.sample({"symbolic dataset": f"all datasets with n={n}, m={m}", "scheme": "12 symbolic reals", "paths": STATS.paths})
    return out


def consistency_pairs(n):
    """[P] all (partition over a subset, consensus over a subset) pairs over n elements"""
    from corankco.partitioning.ordered_partition import OrderedPartition
    from corankco.consensus import Consensus
    from corankco.ranking import Ranking
    from corankco.element import Element
    out = []
    names = list(range(1, n + 1))
    subsets = [s for k in range(1, n + 1) for s in itertools.combinations(range(n), k)]
    cnt = 0
    for ps in subsets:
        for part in spec.ordered_partitions(ps):
            op = OrderedPartition([{Element(names[e]) for e in g} for g in part])
            for cs in subsets:
                if n == 4 and len(ps) < 3 and len(cs) < 3:
                    continue
                for cons in spec.ordered_partitions(cs):
                    c = Consensus([Ranking([{names[e] for e in b} for b in cons])])
                    try:
                        got = op.consistent_with(c)
                    except Exception as e:  # noqa
                        got = f"raises {type(e).__name__}"
                    lv = spec.levels_of(cons, n)
                    exp = set(ps) == set(cs) and consistent(lv, [set(g) for g in part])
                    cnt += 1
                    if got is not exp:
                        out.append({"signature": {"site": "consistent_with", "class": str(got)}, "kind": "consistency",
                                    "what": f"consistent_with({[list(g) for g in part]}, {[list(b) for b in cons]}) = {got}, relation says {exp}",
                                    "partition": [[names[e] for e in g] for g in part], "consensus": [[names[e] for e in b] for b in cons]})
                        if len(out) > 3:
                            return out
    STATS.states += cnt
    STATS.q["consistency:checked"] += cnt
    STATS.sample({"consistent_with": f"all pairs over {n} elements", "pairs": cnt})
    return out


def run(run):
    sweep.install()
    if run.thorough:
        light = {(1, 1): None, (2, 1): None, (2, 2): None, (3, 1): None, (3, 2): None, (4, 1): None, (4, 2): 300}
        cn = [1, 2, 3, 4]
    else:
        light = {(1, 1): None, (2, 1): None, (2, 2): None, (3, 1): None, (3, 2): 200, (4, 1): 20, (4, 2): 12}
        cn = [1, 2, 3]
    run.assumptions = ["dataset shapes enumerated, scheme symbolic on every path", "real igraph on the concrete graph of each path",
                       "float64 modelled as exact reals (strict cost comparisons of the robust arcs are exact)",
                       "consistent_with part is a declared exhaustive enumeration (no symbolic residue)"]
    run.outside = ["n > 4", "m > 2 except the Condorcet strata"]
    run.rule = "partition: per path one query: no inconsistent ranking is optimal; consistent_with: one evaluation per pair"
    run.bounds["consistent_with [P]: all pairs over n elements, n ="] = cn
    run.pmap("consistent_with", consistency_pairs, cn)
    items = sweep.make_items(run, ["Copeland"], [chk_parfront], flags=(True,), light=light, heavy=light,
                             strata={"*": ["cycles3", "comp3plus1"]})
    items += sweep.history_items(run, ["Copeland"], [chk_parfront], 40 if run.thorough else 12)
    run.pmap("parfront", sweep.run_item, sweep.order_items(items), chunksize=2)
    symb = [(2, 2), (3, 1), (3, 2), (2, 3)] + ([(4, 1), (2, 4)] if run.thorough else [])
    run.bounds["parfront on symbolic datasets [S over datasets and schemes] (n, m)"] = symb
    run.pmap("sym_parfront", sym_parfront, symb)
    run.extra["work_items"] = len(items)


def replay(p):
    from corankco.partitioning.ordered_partition import OrderedPartition
    if p.get("kind") == "consistency":
        from corankco.consensus import Consensus
        from corankco.ranking import Ranking
        from corankco.element import Element
        op = OrderedPartition([{Element(x) for x in g} for g in p["partition"]])
        c = Consensus([Ranking([set(b) for b in p["consensus"]])])
        try:
            got = op.consistent_with(c)
        except Exception as e:  # noqa
            return True, f"raised {type(e).__name__}: {e}"
        lv = {x: i for i, b in enumerate(p["consensus"]) for x in b}
        pe = [x for g in p["partition"] for x in g]
        exp = set(pe) == set(lv) and all(lv[x] < lv[y] for i, j in itertools.combinations(range(len(p["partition"])), 2)
                                        for x in p["partition"][i] for y in p["partition"][j])
        return got is not exp, f"consistent_with({p['partition']}, {p['consensus']}) = {got}, relation says {exp}"
    from corankco.dataset import Dataset
    from corankco.scoringscheme import ScoringScheme
    sc = ScoringScheme([[float(x) for x in v] for v in p["scheme"]])
    ds = sweep.replay_dataset(p, sc)
    names, lvs = sweep.concrete_levels(p)
    try:
        pf = [set(el.value for el in g) for g in OrderedPartition.parfront_partition(ds, sc)]
        pc = [set(el.value for el in g) for g in OrderedPartition.parcons_partition(ds, sc)]
    except Exception as e:  # noqa
        return True, f"raised {type(e).__name__}: {e}"
    allx = [x for g in pf for x in g]
    if sorted(allx, key=str) != sorted(names, key=str):
        return True, f"{pf} is not a partition of {names}"
    i = 0
    for g in pf:
        acc = set()
        while i < len(pc) and acc != g and pc[i] <= g:
            acc |= pc[i]
            i += 1
        if acc != g:
            return True, f"ParFront {pf} is not a merge of consecutive groups of ParCons {pc}"
    scores = []
    for pt in spec.ordered_partitions(names):
        clv = {x: i for i, b in enumerate(pt) for x in b}
        ok = all(clv[x] < clv[y] for i, j in itertools.combinations(range(len(pf)), 2) for x in pf[i] for y in pf[j])
        scores.append((spec.score_c(clv, lvs, sc.b_vector, sc.t_vector, elems=names), ok, pt))
    best = min(s for s, _, _ in scores)
    for s, ok, pt in scores:
        if abs(s - best) < 1e-9 and not ok:
            return True, f"ParFront partition {pf}, but the optimal consensus {pt} (score {s}) does not respect it"
    return False, f"every optimal consensus respects {pf}"
