"""C09 - BioConsert is never worse than any of its starting points.

[PxS] Engine F: the real BioConsert with / without starting algorithms on enumerated real datasets, scheme symbolic; the
      starting algorithms are wrapped by a recorder so the consensus each one returned *inside* the run is known.  On
      every path: score(result) <= score(every unified input ranking) and <= score(all-tied) (no starters), or <=
      score(each starter's consensus); all returned rankings share one score.  Datasets whose first-appearance element
      order differs from the starters' consensus order are part of the enumeration.
[S]   Engine M: _bio_consert's per-departure glue (start from the departure, initial score, write back) with the local
      search replaced by a contract stub.
"""
from vf import harness, sweep
from vf.checks import bio_kernels as bk

PID = "C09"
CFGS = ["BioConsert", "BioConsert[Copeland]", "BioCo", "BioConsert[KwikSort,Borda]", "BioConsert[PickAPerm]",
        "BioConsert[Copeland,PickAPerm]", "BioConsert[KwikSort]", "BioConsert[Borda,Borda(bucket_id)]"]


def run(run):
    sweep.install()
    if run.thorough:
        heavy = {(1, 1): None, (1, 2): None, (2, 1): None, (2, 2): None, (3, 1): None, (3, 2): 120, (4, 1): 8, (4, 2): 3}
        kinit = [(2, 1), (3, 1), (3, 2), (4, 2), (5, 1)]
    else:
        heavy = {(1, 1): None, (2, 1): None, (2, 2): None, (3, 1): None, (3, 2): 40}
        kinit = [(2, 2), (3, 2), (4, 1)]
    run.assumptions = ["dataset shapes enumerated, scheme symbolic on every path", "float64 modelled as exact reals",
                       "KwikSort starter pivots arbitrary", "local search explored by nested sub-exploration merged by final ranking"]
    run.outside = ["n > 4", "m > 2", "custom user-defined starting algorithms"]
    run.rule = "one item per (configuration, dataset, flag); on every path one query per starting point"
    run.bounds["_bio_consert glue [S] (n, departures)"] = kinit
    run.pmap("bk.init_score_check", bk.init_score_check, kinit)
    items = sweep.make_items(run, CFGS, ["starts"], flags=(False, True) if run.thorough else (False,), light=heavy, heavy=heavy)
    items += sweep.history_items(run, CFGS[:3], ["starts"], 6 if run.thorough else 2, flags=(False,))
    run.pmap("sweep.run_item", sweep.run_item, sweep.order_items(items), chunksize=1)
    run.extra["work_items"] = len(items)
    run.extra["stubs"] = sweep.install()


def replay(p):
    if "config" not in p:
        return bk.replay_kernel(p)
    return sweep.replay(p)
