"""Shared [S] Engine-M checks of the BioConsert kernels (used by C03, C04, C08).

State: r = bucket-id vector of n elements (dense: ids 0..max all used), cost = flattened n*n*3 table of reals
that is mirror-consistent (before(x,y)=after(y,x), tied symmetric).  score(r) = sum over pairs of the entry
selected by r.  All specs below are written from the property statements.
"""
import ast
import z3
from vf import harness, merge
from vf.harness import STATS

THR = z3.RealVal("-1/1000")


def zmax(xs):
    mx = xs[0]
    for x in xs[1:]:
        mx = z3.If(x > mx, x, mx)
    return mx


def dense(r, n):
    mx = zmax(r)
    cs = [z3.And(x >= 0, x < n) for x in r]
    for k in range(n):
        cs.append(z3.Implies(k <= mx, z3.Or(*[x == k for x in r])))
    return z3.And(*cs), mx


def sym_cost(n, tag="c"):
    cost = [[[z3.Real(f"{tag}_{x}_{y}_{k}") for k in range(3)] for y in range(n)] for x in range(n)]
    pre = []
    for x in range(n):
        for y in range(n):
            if x < y:
                pre += [cost[x][y][0] == cost[y][x][1], cost[x][y][1] == cost[y][x][0], cost[x][y][2] == cost[y][x][2]]
            if x == y:
                pre += [cost[x][y][k] == 0 for k in range(3)]
    flat = [cost[x][y][k] for x in range(n) for y in range(n) for k in range(3)]
    return cost, flat, pre


def rel(a, b, c):
    """cost entry for an element at bucket a versus another at bucket b"""
    return z3.If(a < b, c[0], z3.If(a > b, c[1], c[2]))


def score(rv, cost):
    n = len(rv)
    tot = z3.RealVal(0)
    for x in range(n):
        for y in range(x + 1, n):
            tot = tot + rel(rv[x], rv[y], cost[x][y])
    return tot


def delta_join(rv, cost, elem, b):
    """score change when elem joins existing bucket b"""
    n = len(rv)
    return sum([rel(b, rv[y], cost[elem][y]) - rel(rv[elem], rv[y], cost[elem][y]) for y in range(n) if y != elem], z3.RealVal(0))


def delta_new(rv, cost, elem, i):
    """score change when elem is placed alone in a new bucket inserted before the current bucket i (i = max+1: last)"""
    n = len(rv)
    return sum([z3.If(rv[y] < i, cost[elem][y][1], cost[elem][y][0]) - rel(rv[elem], rv[y], cost[elem][y])
                for y in range(n) if y != elem], z3.RealVal(0))


def same_order_others(r0, r1, elem):
    n = len(r0)
    cs = []
    for y in range(n):
        for z in range(y + 1, n):
            if elem in (y, z):
                continue
            cs.append((r0[y] < r0[z]) == (r1[y] < r1[z]))
            cs.append((r0[y] == r0[z]) == (r1[y] == r1[z]))
    return z3.And(*cs) if cs else z3.BoolVal(True)


def no_improving_move(rv, cost, elem, mx):
    n = len(rv)
    cs = []
    for b in range(n):
        cs.append(z3.Implies(z3.And(b <= mx, b != rv[elem]), delta_join(rv, cost, elem, b) >= THR))
    for i in range(n + 1):
        cs.append(z3.Implies(i <= mx + 1, delta_new(rv, cost, elem, i) >= THR))
    return z3.And(*cs)


def _cex(mdl, rv, flat, n, what, site):
    return {"signature": {"site": site, "class": what.split(":")[0]}, "what": what, "n": n,
            "r": [harness.zval(mdl, x) for x in rv], "cost": [harness.zval(mdl, x) for x in flat]}


def _finish(I, s, out, rv, flat, n, site):
    for txt, r, mdl in merge.discharge_obligations(I, s):
        if mdl is None:
            raise harness.Inconclusive(txt)
        out.append(_cex(mdl, rv, flat, n, "obligation: " + txt, site))
    STATS.encoded.update(I.ctx.encoded)
    STATS.states += 1


def _ask(s, out, rv, flat, n, site, name, f):
    r, mdl = harness.refute(s, "property", z3.Not(f))
    if r == "sat":
        out.append(_cex(mdl, rv, flat, n, name, site))
    elif r != "unsat":
        raise harness.Inconclusive(f"{site} {name}: unknown")


def search_check(args):
    """K1+K2: _compute_delta_costs followed by _search_to_change_bucket / _search_to_add_bucket"""
    n, elem = args
    from corankco.algorithms.bioconsert import bioconsert as Bm
    out = []
    for which in ("change", "add"):
        I = merge.new_interp(unwind=n + 3)
        r, rv = merge.sym_array(I, "r", (n,))
        cost, flat, cpre = sym_cost(n)
        cm = merge.const_array(I, (3 * n * n,), flat)
        change = merge.const_array(I, (n + 2,), [0.0] * (n + 2))
        add = merge.const_array(I, (n + 3,), [0.0] * (n + 3))
        pre_d, mx = dense(rv, n)
        be = rv[elem]
        alone = I.call_function(Bm._compute_delta_costs, [r, elem, cm, be, change, add, n])
        s = harness.solver()
        s.add(pre_d, *cpre)
        if harness.check(s, "vacuity") != "sat":
            raise harness.HarnessError("vacuous")
        site = f"_compute_delta_costs+_search_to_{which}_bucket"
        if which == "change":
            to = merge.to_z3(I.call_function(Bm._search_to_change_bucket, [be, change, mx]))
            _ask(s, out, rv, flat, n, site, "range: result outside -1..max or equal to own bucket",
                 z3.And(to >= -1, to <= mx, to != be))
            for b in range(n):
                _ask(s, out, rv, flat, n, site, f"none: returns -1 although joining bucket {b} improves by more than 0.001",
                     z3.Implies(z3.And(to == -1, b <= mx, b != be), delta_join(rv, cost, elem, b) >= THR))
                _ask(s, out, rv, flat, n, site, f"found: entry read by the caller for bucket {b} is not the true delta < -0.001",
                     z3.Implies(to == b, z3.And(delta_join(rv, cost, elem, b) < THR,
                                                merge.to_z3(merge.cell(I, change, (b,))) == delta_join(rv, cost, elem, b))))
            alone_spec = z3.And(*[rv[y] != be for y in range(n) if y != elem]) if n > 1 else z3.BoolVal(True)
            _ask(s, out, rv, flat, n, site, "alone: flag wrong", (merge.to_z3(alone) == 1) == alone_spec)
        else:
            to = merge.to_z3(I.call_function(Bm._search_to_add_bucket, [be, add, mx]))
            _ask(s, out, rv, flat, n, site, "range: result outside -1..max+1", z3.And(to >= -1, to <= mx + 1))
            for i in range(n + 1):
                _ask(s, out, rv, flat, n, site, f"none: returns -1 although a new bucket at {i} improves by more than 0.001",
                     z3.Implies(z3.And(to == -1, i <= mx + 1), delta_new(rv, cost, elem, i) >= THR))
                _ask(s, out, rv, flat, n, site, f"found: entry read by the caller for position {i} is not the true delta < -0.001",
                     z3.Implies(to == i, z3.And(delta_new(rv, cost, elem, i) < THR,
                                                merge.to_z3(merge.cell(I, add, (i,))) == delta_new(rv, cost, elem, i))))
        _finish(I, s, out, rv, flat, n, site)
    STATS.sample({"kernels": "_compute_delta_costs + searches", "n": n, "elem": elem, "state": "any dense r, any mirror-consistent table"})
    return out


def move_check(args):
    """K3: _change_bucket / _add_bucket realise exactly the intended single-element move and keep r dense"""
    n, elem = args
    from corankco.algorithms.bioconsert import bioconsert as Bm
    out = []
    for which in ("change", "add"):
        I = merge.new_interp(unwind=n + 3)
        r, rv = merge.sym_array(I, "r", (n,))
        to = z3.Int("to")
        pre_d, mx = dense(rv, n)
        be = rv[elem]
        alone = z3.If(z3.And(*[rv[y] != be for y in range(n) if y != elem]) if n > 1 else z3.BoolVal(True), 1, 0)
        s = harness.solver()
        s.add(pre_d)
        site = f"_{which}_bucket"
        if which == "change":
            s.add(to >= 0, to <= mx, to != be)
            I.call_function(Bm._change_bucket, [r, n, elem, be, to, alone])
        else:
            s.add(to >= 0, to <= mx + 1)
            I.call_function(Bm._add_bucket, [r, n, elem, be, to, alone])
        if harness.check(s, "vacuity") != "sat":
            if n == 1 and which == "change":
                continue
            raise harness.HarnessError("vacuous")
        r1 = [merge.to_z3(x) for x in merge.cells_of(I, r)]
        d1, _ = dense(r1, n)

        def ask(name, f):
            rr, mdl = harness.refute(s, "property", z3.Not(f))
            if rr == "sat":
                c = _cex(mdl, rv, [], n, name, site)
                c["elem"], c["to"] = elem, harness.zval(mdl, to)
                out.append(c)
            elif rr != "unsat":
                raise harness.Inconclusive(site)
        ask("dense: bucket ids not dense after the move", d1)
        ask("order: relative order of the other elements changed", same_order_others(rv, r1, elem))
        if which == "change":
            for y in range(n):
                if y != elem:
                    ask("join: element not placed relative to others as 'joins bucket to'",
                        z3.And((rv[y] == to) == (r1[y] == r1[elem]), (rv[y] < to) == (r1[y] < r1[elem])))
        else:
            for y in range(n):
                if y != elem:
                    ask("new: element not alone in a new bucket at the requested position",
                        z3.And(r1[y] != r1[elem], (rv[y] < to) == (r1[y] < r1[elem])))
        for txt, rr, mdl in merge.discharge_obligations(I, s):
            if mdl is None:
                raise harness.Inconclusive(txt)
            c = _cex(mdl, rv, [], n, "obligation: " + txt, site)
            c["elem"], c["to"] = elem, harness.zval(mdl, to)
            out.append(c)
        STATS.encoded.update(I.ctx.encoded)
        STATS.states += 1
    STATS.sample({"kernels": "_change_bucket / _add_bucket", "n": n, "elem": elem, "state": "any dense r, any admissible target"})
    return out


def find_for_body(fdef):
    """the `for elem in range(n)` loop inside the `while` of _improve_one_ranking"""
    for st in fdef.body:
        if isinstance(st, ast.While):
            for st2 in st.body:
                if isinstance(st2, ast.For):
                    return st, st2
    return None, None


def step_check(args):
    """K4: one iteration of the `for elem` body of _improve_one_ranking from any state satisfying the invariant
    (r dense, max_id_bucket = max(r), delta_dist = score(r) - score(r0))"""
    n, elem = args
    from corankco.algorithms.bioconsert import bioconsert as Bm
    out = []
    I = merge.new_interp(unwind=n + 3)
    fdef, fr = I.open_function(Bm._improve_one_ranking)
    wh, fo = find_for_body(fdef)
    if fo is None or not isinstance(fo.target, ast.Name):
        raise harness.HarnessError("anchor not found: for-loop inside the while of _improve_one_ranking")
    params = [a.arg for a in fdef.args.args]
    if len(params) != 3:
        raise harness.HarnessError("unexpected signature of _improve_one_ranking")
    r, rv = merge.sym_array(I, "r", (n,))
    cost, flat, cpre = sym_cost(n)
    cm = merge.const_array(I, (3 * n * n,), flat)
    pre_d, mx = dense(rv, n)
    d0 = z3.Real("delta0")
    t0 = z3.Int("terminated0")
    # locals of the function at the loop head; names are read from the source so a renaming is followed
    fr.env[params[0]], fr.env[params[1]], fr.env[params[2]] = r, cm, n
    # run the statements before the while natively on the symbolic state to create the locals, then overwrite
    pre_stmts = []
    for st in fdef.body:
        if st is wh:
            break
        pre_stmts.append(st)
    I.exec_block(pre_stmts, fr, True)
    names = {}
    for st in pre_stmts:
        if isinstance(st, ast.Assign) and isinstance(st.targets[0], ast.Name):
            names[st.targets[0].id] = st
    loc = dict(fr.env)
    # identify the locals by role: the float accumulator, the max id, the terminated flag
    acc = [k for k, v in loc.items() if isinstance(v, float)]
    flag = [k for k, v in loc.items() if isinstance(v, int) and not isinstance(v, bool) and k not in params and v == 0]
    mxn = [k for k, v in loc.items() if merge.is_sym(v) and z3.is_int(v)]
    if len(acc) != 1 or len(flag) != 1 or len(mxn) != 1:
        raise harness.HarnessError(f"cannot identify locals of _improve_one_ranking: {acc} {flag} {mxn}")
    fr.env[acc[0]] = d0
    fr.env[flag[0]] = t0
    fr.env[mxn[0]] = mx
    fr.env[fo.target.id] = elem
    I.exec_block(fo.body, fr, True)
    if fr.returned is not False or fr.brk is not False:
        raise harness.HarnessError("loop body returns/breaks: outside the supported shape")
    r1 = [merge.to_z3(x) for x in merge.cells_of(I, r)]
    d1 = merge.to_z3(fr.env[acc[0]])
    t1 = merge.to_z3(fr.env[flag[0]])
    mx1 = merge.to_z3(fr.env[mxn[0]])
    s = harness.solver()
    s.add(pre_d, *cpre)
    if harness.check(s, "vacuity") != "sat":
        raise harness.HarnessError("vacuous")
    site = "_improve_one_ranking loop body"
    dn1, mxs1 = dense(r1, n)
    moved = z3.Or(*[r1[y] != rv[y] for y in range(n)])
    ds = score(r1, cost) - score(rv, cost)
    _ask(s, out, rv, flat, n, site, "dense: r not dense after one step", dn1)
    _ask(s, out, rv, flat, n, site, "maxid: max_id_bucket != max(r) after one step", mx1 == mxs1)
    _ask(s, out, rv, flat, n, site, "delta: accumulated delta differs from the true score change", d1 - d0 == ds)
    _ask(s, out, rv, flat, n, site, "single: step is not a single-element move of the current element", same_order_others(rv, r1, elem))
    _ask(s, out, rv, flat, n, site, "nomove: no move made although an improving move of the element exists, or flag changed",
         z3.Implies(z3.Not(moved), z3.And(t1 == t0, no_improving_move(rv, cost, elem, mx))))
    _ask(s, out, rv, flat, n, site, "moved: move made but flag not reset or score did not drop by more than 0.001",
         z3.Implies(moved, z3.And(t1 == 0, ds < THR)))
    _finish(I, s, out, rv, flat, n, site)
    STATS.sample({"kernel": "_improve_one_ranking (one iteration of the for-elem body)", "n": n, "elem": elem,
                  "pre-state": "any dense r, max_id_bucket=max(r), any delta_dist, any mirror-consistent table"})
    return out


def init_score_check(args):
    """_bio_consert with _improve_one_ranking replaced by a contract stub (havoc r, arbitrary returned delta):
    dst_min[i] = score(departure_i) + returned delta, and the final r is written back"""
    n, k = args
    from corankco.algorithms.bioconsert import bioconsert as Bm
    out = []
    I = merge.new_interp(unwind=n + 3)
    dep, dv = merge.sym_array(I, "d", (k * n,))
    cost, flat, cpre = sym_cost(n)
    cm = merge.const_array(I, (3 * n * n,), flat)
    dst = merge.const_array(I, (k,), [0.0] * k)
    calls = []

    def stub(I_, r_, cm_, n_):
        i = len(calls)
        before = [merge.to_z3(x) for x in merge.cells_of(I_, r_)]
        hv = [z3.Int(f"h_{i}_{j}") for j in range(n)]
        for j in range(n):
            I_.arr_set(r_, (j,), hv[j])
        ret = z3.Real(f"ret_{i}")
        calls.append((before, hv, ret))
        return ret
    I.models[Bm._improve_one_ranking] = stub
    fn = Bm.BioConsert.__dict__['_bio_consert']
    I.call_function(fn, [dep, cm, n, k, dst])
    s = harness.solver()
    pre = list(cpre)
    for i in range(k):
        pd, _ = dense(dv[i * n:(i + 1) * n], n)
        pre.append(pd)
    s.add(*pre)
    if harness.check(s, "vacuity") != "sat":
        raise harness.HarnessError("vacuous")
    site = "_bio_consert"
    if len(calls) != k:
        raise harness.HarnessError(f"_improve_one_ranking called {len(calls)} times for {k} departures")
    allv = dv
    for i in range(k):
        before, hv, ret = calls[i]
        di = dv[i * n:(i + 1) * n]
        _ask(s, out, allv, flat, n, site, f"start: local search of departure {i} does not start from that departure",
             z3.And(*[before[j] == di[j] for j in range(n)]))
        _ask(s, out, allv, flat, n, site, f"initial-score: dst_min[{i}] != score(departure) + delta returned by the local search",
             merge.to_z3(merge.cell(I, dst, (i,))) == score(di, cost) + ret)
        _ask(s, out, allv, flat, n, site, f"writeback: final ranking of departure {i} not written back",
             z3.And(*[merge.to_z3(merge.cell(I, dep, (i * n + j,))) == hv[j] for j in range(n)]))
    _finish(I, s, out, allv, flat, n, site)
    STATS.sample({"kernel": "_bio_consert with contract stub for _improve_one_ranking", "n": n, "departures": k})
    return out


def replay_kernel(p):
    """replay of a kernel-level counterexample against the real (jitted) kernels"""
    import numpy as np
    from corankco.algorithms.bioconsert import bioconsert as Bm
    n = p["n"]
    site = p["signature"]["site"]
    if site in ("_change_bucket", "_add_bucket"):
        r0 = np.array(p["r"], dtype=np.int32)
        r = r0.copy()
        elem, to = p["elem"], p["to"]
        alone = 1 if sum(1 for x in r0 if x == r0[elem]) == 1 else 0
        getattr(Bm, site)(r, n, elem, int(r0[elem]), to, alone)
        ids = sorted(set(int(x) for x in r))
        ok = ids == list(range(len(ids)))
        for y in range(n):
            for z in range(n):
                if elem not in (y, z) and ((r0[y] < r0[z]) != (r[y] < r[z])):
                    ok = False
        for y in range(n):
            if y != elem:
                if site == "_change_bucket":
                    ok = ok and ((r0[y] == to) == (r[y] == r[elem])) and ((r0[y] < to) == (r[y] < r[elem]))
                else:
                    ok = ok and r[y] != r[elem] and ((r0[y] < to) == (r[y] < r[elem]))
        return (not ok), f"{site}(r={list(r0)}, elem={elem}, to={to}, alone={alone}) -> {list(r)}"
    cost = np.array([float(x) for x in p["cost"]], dtype=np.float64)
    tab = cost.reshape(n, n, 3)

    def sc(rr):
        return sum(tab[x][y][0 if rr[x] < rr[y] else 1 if rr[x] > rr[y] else 2] for x in range(n) for y in range(x + 1, n))
    if site == "_bio_consert":
        k = len(p["r"]) // n
        dep = np.array(p["r"], dtype=np.int32)
        dst = np.zeros(k)
        d0 = dep.copy()
        Bm.BioConsert._bio_consert(dep, cost, n, k, dst)
        for i in range(k):
            fin = dep[i * n:(i + 1) * n]
            if abs(dst[i] - sc(fin)) > 1e-6:
                return True, f"departure {list(d0[i * n:(i + 1) * n])}: reported {dst[i]} but final ranking {list(fin)} scores {sc(fin)}"
        return False, "reported scores equal the true scores of the final rankings"
    # search / step level: run the whole local search from the counterexample state and test the result; if that particular
    # state does not expose the defect end to end (the inductive step is violated, but the consequence needs a longer run),
    # a directed search over random dense states and mirror-consistent tables (n = 3..7) looks for an end-to-end witness.
    # The alarm is only raised for a witness that fails against the real jitted kernels.
    def whole(r0, cost_, n_):
        tab_ = cost_.reshape(n_, n_, 3)

        def sc_(rr):
            return sum(tab_[x][y][0 if rr[x] < rr[y] else 1 if rr[x] > rr[y] else 2] for x in range(n_) for y in range(x + 1, n_))
        r_ = r0.copy()
        delta_ = Bm._improve_one_ranking(r_, cost_, n_)
        ids_ = sorted(set(int(x) for x in r_))
        if ids_ != list(range(len(ids_))):
            return f"local search from {list(r0)} ends in non-dense {list(r_)}"
        if abs((sc_(r_) - sc_(r0)) - delta_) > 1e-6:
            return f"local search from {list(r0)}: returned delta {delta_} but true change {sc_(r_) - sc_(r0)}"
        mxb_ = max(ids_)
        base_ = sc_(r_)
        for e in range(n_):
            for b in range(mxb_ + 1):
                if b != r_[e]:
                    r2 = r_.copy(); r2[e] = b
                    if sc_(r2) - base_ < -0.001 - 1e-9:
                        return f"local search from {[int(x) for x in r0]} stops at {[int(x) for x in r_]} although moving {e} to bucket {b} gains {sc_(r2) - base_}"
            for i in range(mxb_ + 2):
                r2 = [2 * int(x) + 1 for x in r_]; r2[e] = 2 * i
                if sc_(r2) - base_ < -0.001 - 1e-9:
                    return f"local search from {[int(x) for x in r0]} stops at {[int(x) for x in r_]} although a new bucket for {e} at {i} gains {sc_(r2) - base_}"
        return None
    msg = whole(np.array(p["r"], dtype=np.int32), cost, n)
    if msg:
        return True, msg
    import random, time
    rnd = random.Random(12345)
    t0 = time.time()
    trials = 0
    while time.time() - t0 < 40:
        trials += 1
        nn = rnd.randint(3, 7)
        k = rnd.randint(1, nn)
        lv = [rnd.randrange(k) for _ in range(nn)]
        ids = sorted(set(lv))
        r0 = np.array([ids.index(x) for x in lv], dtype=np.int32)
        tab = np.zeros((nn, nn, 3))
        for x in range(nn):
            for y in range(x + 1, nn):
                a, b, c = (rnd.choice([0, 0.5, 1, 1.5, 2, 3]) for _ in range(3))
                tab[x][y] = (a, b, c)
                tab[y][x] = (b, a, c)
        msg = whole(r0, tab.flatten(), nn)
        if msg:
            return True, f"directed search ({trials} random states): {msg}; table {tab.flatten().tolist()}"
    return False, f"local search from {p['r']} ends in a local optimum with exact bookkeeping; directed search over {trials} random states found no end-to-end witness"
