"""C10 - PickAPerm returns exactly the best input rankings.

[PxS] Engine F on the real PickAPerm over enumerated real datasets with the scheme symbolic, both flag values.  The
      library's own scheme test forks the path into scheme classes; on each path:
      complete data: never refused; every returned ranking is an input ranking; its score is <= the score of every input
      ranking for all penalties on the path; with all requested, every distinct input ranking that is not returned is
      strictly worse.  Incomplete data: a result implies the scheme is a positive multiple of the unifying scheme on both
      vectors and the returned rankings are unified inputs with minimal score; the dedicated exception implies it is not.
[P]   a same-object history: two different datasets aggregated by one PickAPerm object.
"""
import itertools
import z3
from vf import harness, sweep, fork, spec, shapes
from vf.harness import STATS
from vf.checks.c19 import proportional

PID = "C10"
UNIF = ([0, 1, 1, 0, 1, 1], [1, 1, 0, 1, 1, 0])


def prop_to(o, pb, pt):
    return proportional(o.B, o.T, [z3.RealVal(x) for x in pb], [z3.RealVal(x) for x in pt], 6)


def chk_pick(o, out):
    uni = [sweep.unified(r, o.present) for r in o.lvs]
    is_unif = prop_to(o, *UNIF)
    if o.exc is not None:
        nm = type(o.exc).__name__
        if nm == "InompleteRankingsIncompatibleWithScoringSchemeException":
            if o.complete:
                sweep.prove(o, False, "complete dataset refused", "refused-complete", out)
            else:
                sweep.prove(o, z3.Not(is_unif), "incomplete dataset refused although the scheme is a multiple of the unifying scheme", "refusal", out)
        return          # other exceptions: reported by the generic crash check
    if o.rankings is None:
        sweep.prove(o, False, "ill-formed consensus " + str(o.malformed), "inputs", out)
        return
    if not o.complete:
        if not sweep.prove(o, is_unif, "incomplete dataset accepted although the scheme is not a multiple of the unifying scheme", "refusal", out):
            return
    canon = lambda lv: tuple(spec.levels_of(spec.buckets_of(lv), o.n))  # noqa
    inputs = {canon(u) for u in uni}
    ret = [canon(lv) for lv in o.rankings]
    for r in ret:
        if r not in inputs:
            sweep.prove(o, False, f"returned ranking {spec.buckets_of(r)} is not one of the (unified) input rankings", "inputs", out)
            return
    if o.flag and len(ret) != 1:
        sweep.prove(o, False, f"{len(ret)} rankings returned although at most one was requested", "inputs", out)
        return
    conj = []
    for r in set(ret):
        sr = sweep.score_term(o, r)
        for u in inputs:
            conj.append(sr <= sweep.score_term(o, u))
    if not sweep.prove(o, z3.And(*conj), "a returned ranking is not minimal among the input rankings", "minimal", out):
        return
    if not o.flag:
        s0 = sweep.score_term(o, ret[0])
        missing = [u for u in inputs if u not in set(ret)]
        if missing:
            sweep.prove(o, z3.And(*[sweep.score_term(o, u) > s0 for u in missing]),
                        "all minimal rankings requested but a minimal input ranking is missing", "all-minimal", out)


def history_item(args):
    """one PickAPerm object aggregates dataset 1, then dataset 2; the property is checked on the second call"""
    lv1, lv2, names, flag = args
    sweep.install()
    out = []
    ds1, ds2 = shapes.build(lv1, names), shapes.build(lv2, names)
    B, T = fork.scheme_vars()
    sc = fork.make_scheme(B, T)
    ex = fork.Explorer(fork.valid_scheme(B, T))

    def path(ctx):
        alg, _ = sweep.make_config("PickAPerm")
        try:
            alg.compute_consensus_rankings(ds1, sc, flag)
        except Exception:  # noqa
            return
        o = sweep.observe(ctx, "PickAPerm", lv2, names, flag, B, T, sc, ds2, alg=alg)
        sweep.chk_crash(o, out)
        chk_pick(o, out)
        for pl in out:
            pl["history_first"] = shapes.raw_json(lv1, names)
            pl["signature"] = dict(pl["signature"], history="same object")
    ex.explore(path)
    STATS.sample({"history": [shapes.raw_json(lv1, names), shapes.raw_json(lv2, names)], "same PickAPerm object": True})
    return out


def run(run):
    sweep.install()
    if run.thorough:
        light = {(1, 1): None, (1, 2): None, (2, 1): None, (2, 2): None, (3, 1): None, (3, 2): None, (3, 3): 300, (4, 1): None, (4, 2): 200}
        nh = 60
    else:
        light = {(1, 1): None, (1, 2): None, (2, 1): None, (2, 2): None, (3, 1): None, (3, 2): None, (3, 3): 120, (4, 1): None, (4, 2): 60}
        nh = 30
    run.assumptions = ["dataset shapes enumerated, scheme symbolic on every path", "float64 modelled as exact reals",
                       "'unifying scheme' = positive multiple of [[0,1,1,0,1,1],[1,1,0,1,1,0]] on both vectors"]
    run.outside = ["n > 4, m > 3"]
    run.rule = "one item per (dataset, flag); per path: membership (structural), minimality and completeness of the returned set (solver)"
    items = sweep.make_items(run, ["PickAPerm"], [chk_pick, "wellformed"], flags=(True, False), light=light, heavy=light)
    items += sweep.history_items(run, ["PickAPerm"], [chk_pick, "wellformed"], 12 if run.thorough else 6, flags=(True, False))
    # element names whose text mimics the delimiters of the textual form: different rankings with the same str()
    odd = {2: ["x", "x}, {x"], 3: ["x", "x}, {x", "x], [x"]}
    n_odd = 0
    for n, m in ((2, 2), (2, 3), (3, 2)):
        for lvs in sweep.dataset_pool(n, m):
            if all(-1 not in r for r in lvs):
                for fl in (True, False):
                    items.append(("PickAPerm", lvs, odd[n], fl, [chk_pick, "wellformed"]))
                    n_odd += 1
    run.bounds["complete datasets (n,m) in (2,2),(2,3),(3,2) with delimiter-like element names ('x', 'x}, {x', 'x], [x')"] = n_odd
    run.pmap("pickaperm", sweep.run_item, items, chunksize=4)
    import random
    rnd = random.Random(run.seed)
    pool = [d for d in sweep.dataset_pool(3, 3) if all(-1 not in r for r in d)]
    hist = []
    for i in range(nh):
        a = rnd.choice(pool)
        perm = list(a)
        b = (perm[0], perm[2], perm[2]) if i % 2 else (perm[1], perm[1], perm[0])
        hist.append((a, b, sweep.NAMINGS[3][i % 3], bool(i % 3)))
    run.bounds["same-object histories (complete 3x3 dataset, then a dataset sharing rankings with it)"] = len(hist)
    run.pmap("history", history_item, hist)
    run.extra["work_items"] = len(items) + len(hist)


def replay(p):
    from corankco.dataset import Dataset
    from corankco.scoringscheme import ScoringScheme
    from corankco.algorithms.pickaperm.pickaperm import PickAPerm
    sc = ScoringScheme([[float(x) for x in v] for v in p["scheme"]])
    ds = sweep.replay_dataset(p, sc)          # applies a recorded history (aggregate, edit in place) to a real Dataset
    alg = PickAPerm()
    if "history_first" in p:
        try:
            alg.compute_consensus_rankings(Dataset.from_raw_list(shapes.from_json(p["history_first"])), sc, p["flag"])
        except Exception:  # noqa
            pass
    names, lvs = sweep.concrete_levels(p)
    complete = all(len(lv) == len(names) for lv in lvs)       # from the raw rankings, not from the library's flag
    lam = sc.b_vector[1]
    is_unif = all(abs(sc.b_vector[i] - lam * UNIF[0][i]) < 1e-12 and abs(sc.t_vector[i] - lam * UNIF[1][i]) < 1e-12 for i in range(6))
    try:
        cons = alg.compute_consensus_rankings(ds, sc, p["flag"])
    except Exception as e:  # noqa
        if type(e).__name__ == "InompleteRankingsIncompatibleWithScoringSchemeException":
            return complete or is_unif, f"refused; complete={complete}, unifying multiple={is_unif}"
        return True, f"raised {type(e).__name__}: {e}"
    if not complete and not is_unif:
        return True, "incomplete dataset accepted with a scheme that is not a multiple of the unifying scheme"
    uni = ds.unified_rankings()
    sc_in = [(sweep.cscore(r, names, lvs, sc), r) for r in uni]
    best = min(s for s, _ in sc_in)
    for r in cons.consensus_rankings:
        if not any(r == u for u in uni):
            return True, f"returned {r} is not an input ranking"
        if sweep.cscore(r, names, lvs, sc) > best + 1e-9:
            return True, f"returned {r} scores {sweep.cscore(r, names, lvs, sc)} > best input score {best}"
    if p["flag"] and len(cons.consensus_rankings) != 1:
        return True, f"{len(cons.consensus_rankings)} rankings returned"
    if not p["flag"]:
        for s, u in sc_in:
            if abs(s - best) < 1e-9 and not any(u == r for r in cons.consensus_rankings):
                return True, f"minimal input ranking {u} missing from {cons}"
    return False, "exactly the best input rankings"
