"""C11 - KwikSort's result is pivot-independent when pairwise preferences cohere.

[S]   Engine M on the real source of KwikSortRandom._where_should_it_be: position vectors of pivot and other element
      symbolic (m <= 3, thorough 4; values -1..n-1), valid symbolic scheme: result = tie if tie is among the cheapest
      placements, else before if among the cheapest, else after (costs from the definition).
[PxS] Engine F on KwikSortRandom.compute_consensus_rankings over enumerated datasets, scheme symbolic, random.choice an
      arbitrary element (all pivot sequences): on every path (a) every element of a recursion step sits relative to the
      step's pivot as the definition's preference says, (b) if the preferences cohere into a ranking with ties, the result
      is that ranking: 'exists w != result with pref == w' is refuted.
"""
import itertools
import z3
from vf import harness, merge, sweep, fork, spec, shapes
from vf.harness import STATS

PID = "C11"


def pref_z(before, after, tied):
    """-1 other before pivot, 0 tied, 1 after (tie preferred on equal cost, then before)"""
    return z3.If(z3.And(tied <= before, tied <= after), 0, z3.If(before <= after, -1, 1))


def kernel(args):
    m, n = args
    from corankco.algorithms.kwiksort.kwiksortrandom import KwikSortRandom
    out = []
    I = merge.new_interp()
    a_p, pp = merge.sym_array(I, "pp", (m,))
    a_o, po = merge.sym_array(I, "po", (m,))
    B, T = fork.scheme_vars()
    sch = merge.const_array(I, (2, 6), B + T)
    res = I.call_function(KwikSortRandom._where_should_it_be, [None, a_p, a_o, sch])
    STATS.encoded.update(I.ctx.encoded)
    pre = [z3.And(x >= -1, x < n) for x in pp + po] + fork.valid_scheme(B, T)
    cs = [spec.pair_costs_z(B, T, po[r], pp[r]) for r in range(m)]
    before, after, tied = [spec.rsum(c[k] for c in cs) for k in range(3)]
    s = harness.solver(300000)
    s.add(*pre)
    r, mdl = harness.refute(s, "property", merge.to_z3(res) != pref_z(before, after, tied))
    if r == "sat":
        out.append({"signature": {"site": "_where_should_it_be", "class": "decision"}, "kind": "kernel",
                    "what": f"_where_should_it_be (m={m}) differs from the cheapest-placement rule",
                    "pivot": [harness.zval(mdl, x) for x in pp], "other": [harness.zval(mdl, x) for x in po], "scheme": fork.scheme_values(mdl, B, T)})
    elif r != "unsat":
        raise harness.Inconclusive("kernel query unknown")
    for txt, rr, mdl in merge.discharge_obligations(I, s):
        raise harness.Inconclusive("obligation " + txt)
    STATS.states += 1
    STATS.sample({"kernel": "_where_should_it_be", "rankings": m, "positions": f"-1..{n - 1}", "scheme": "12 symbolic reals"})
    return out


def pair_pref(o, x, y):
    """definition preference of element x relative to y (as pivot)"""
    tab = o._tab
    return pref_z(fork.term(tab[x][y][0]), fork.term(tab[x][y][1]), fork.term(tab[x][y][2]))


def make_step_logger():
    import corankco.algorithms.kwiksort.kwiksortrandom as KR
    from vf import standins
    steps = []
    inner = KR.choice

    def logging_choice(seq):
        seq = list(seq)
        p = inner(seq)
        steps.append((seq, p))
        return p
    return steps, logging_choice, inner


def chk_kwik(o, out):
    if not sweep.chk_accepts(o, out) or o.rankings is None:
        if o.malformed:
            sweep.prove(o, False, "ill-formed consensus " + o.malformed, "placement", out)
        return
    lv = o.rankings[0]
    o._tab = spec.cost_table_c(o.lvs, o.n, o.B, o.T)
    idx = {(type(nm), nm): i for i, nm in enumerate(o.names)}
    conj = []
    for seq, piv in o.steps:
        p = idx[(piv.type, piv.value)]
        for el in seq:
            e = idx[(el.type, el.value)]
            if e == p:
                continue
            if lv[e] == -1 or lv[p] == -1:
                sweep.prove(o, False, "element missing from the consensus", "placement", out)
                return
            obs = -1 if lv[e] < lv[p] else 1 if lv[e] > lv[p] else 0
            conj.append(pair_pref(o, e, p) == obs)
    if conj and not sweep.prove(o, z3.And(*conj), f"an element is not placed relative to its step's pivot by the cheapest placement "
                                                  f"(result {spec.buckets_of(lv)}, pivots {[str(p) for _, p in o.steps]})", "placement", out):
        return
    # coherent preferences => the result is the ranking they define
    others = []
    for w in sweep.weak_orders_present(o):
        if all((w[x] < w[y]) == (lv[x] < lv[y]) and (w[x] == w[y]) == (lv[x] == lv[y]) for x, y in itertools.combinations(o.present, 2)):
            continue
        agree = []
        for x, y in itertools.permutations(o.present, 2):
            rel = -1 if w[x] < w[y] else 1 if w[x] > w[y] else 0
            agree.append(pair_pref(o, x, y) == rel)
        others.append(z3.Not(z3.And(*agree)))
    if others:
        sweep.prove(o, z3.And(*others), f"preferences cohere into another ranking than the result {spec.buckets_of(lv)}", "coherent", out)


def item(args):
    """like sweep.run_item but records the recursion steps (elements, pivot) of each path.
    checks == ["history", e]: the same algorithm object first aggregates the dataset, then element e is removed from the
    dataset in place and the object aggregates again; the property is checked on the second run."""
    cfg, lvs, names, flag, checks = args
    sweep.install()
    import corankco.algorithms.kwiksort.kwiksortrandom as KR
    out = []
    history = checks and checks[0] == "history"
    ds0 = shapes.build(lvs, names)
    B, T = fork.scheme_vars()
    sc = fork.make_scheme(B, T)
    ex = fork.Explorer(fork.valid_scheme(B, T), max_paths=int(2e5))

    def path(ctx):
        ds, lv2, alg = ds0, lvs, None
        if history:
            from corankco.element import Element
            ds = shapes.build(lvs, names)
            alg, _ = sweep.make_config(cfg)
            alg.compute_consensus_rankings(ds, sc, flag)
            ds.remove_elements({Element(names[checks[1]])})
            lv2 = tuple(tuple(-1 if e == checks[1] else v for e, v in enumerate(r)) for r in lvs)
            lv2 = tuple(spec.levels_of(spec.buckets_of(r), len(names)) for r in lv2 if any(v != -1 for v in r))
        steps, logging_choice, inner = make_step_logger()
        KR.choice = logging_choice
        try:
            o = sweep.observe(ctx, cfg, lv2, names, flag, B, T, sc, ds, alg=alg)
        finally:
            KR.choice = inner
        o.steps = steps
        if history:
            o.history = {"first": shapes.raw_json(lvs, names), "removed": names[checks[1]]}
        chk_kwik(o, out)
        if not out:
            sweep.chk_wellformed(o, out)
        if history:
            for pl in out:
                pl["history"] = o.history
    ex.explore(path)
    STATS.sample({"config": cfg, "dataset": shapes.raw_json(lvs, names), "pivots": "all sequences", "scheme": "12 symbolic reals"}, cap=8)
    return out


def sym_kwik(args):
    """[S over datasets AND schemes, P over pivot sequences]: KwikSortRandom on a SymDataset"""
    n, m = args
    from vf import symds
    import corankco.algorithms.kwiksort.kwiksortrandom as KR
    sweep.install()
    symds.install_kernel_dispatcher()
    symds.install_kwik_dispatcher()
    out = []
    ds = symds.SymDataset(n, m)
    B, T = fork.scheme_vars()
    sc = fork.make_scheme(B, T)
    tab = ds.cost_table(B, T)
    pref = {(x, y): pref_z(tab[x][y][0], tab[x][y][1], tab[x][y][2]) for x in range(n) for y in range(n) if x != y}
    ws = spec.level_vectors(n)
    ex = fork.Explorer(fork.valid_scheme(B, T) + ds.constraints(), max_paths=int(2e5), timeout_ms=120000)

    def pay(ctx, mdl, what, cls):
        return {"signature": {"site": "KwikSortRandom(symbolic dataset)", "class": cls}, "what": what, "check": cls, "config": "KwikSortRandom", "flag": True,
                "rankings": shapes.raw_json(ds.levels_from(mdl), ds.names), "scheme": fork.scheme_values(mdl, B, T),
                "choices": [c for c in ctx.choices if c[0] == "pivot"]}

    def path(ctx):
        steps, logging_choice, inner = make_step_logger()
        KR.choice = logging_choice
        try:
            alg, _ = sweep.make_config("KwikSortRandom", [])
            cons = alg.compute_consensus_rankings(ds, sc, True)
            lv = shapes.ranking_levels(cons.consensus_rankings[0], ds.names)
        except harness.HarnessError:
            raise
        except harness.Inconclusive:
            raise
        except Exception as e:  # noqa
            ctx._ensure_model()
            out.append(pay(ctx, ctx.model, f"raised {type(e).__name__}: {e}", "raises"))
            return
        finally:
            KR.choice = inner
        if any(v == -1 for v in lv):
            ctx._ensure_model()
            out.append(pay(ctx, ctx.model, "element missing from the consensus", "placement"))
            return
        conj = []
        for seq, piv in steps:
            p = piv.value - 1
            for el in seq:
                e = el.value - 1
                if e != p:
                    conj.append(pref[(e, p)] == (-1 if lv[e] < lv[p] else 1 if lv[e] > lv[p] else 0))
        mdl = ctx.prove(z3.And(*conj)) if conj else None
        if mdl is not None:
            out.append(pay(ctx, mdl, f"an element is not placed relative to its step's pivot by the cheapest placement (result {spec.buckets_of(lv)})", "placement"))
            return
        others = []
        for w in ws:
            if all((w[x] < w[y]) == (lv[x] < lv[y]) and (w[x] == w[y]) == (lv[x] == lv[y]) for x, y in itertools.combinations(range(n), 2)):
                continue
            others.append(z3.Not(z3.And(*[pref[(x, y)] == (-1 if w[x] < w[y] else 1 if w[x] > w[y] else 0) for x, y in itertools.permutations(range(n), 2)])))
        if others:
            mdl = ctx.prove(z3.And(*others))
            if mdl is not None:
                out.append(pay(ctx, mdl, f"preferences cohere into another ranking than the result {spec.buckets_of(lv)}", "coherent"))
    ex.explore(path)
    STATS.sample({"symbolic dataset": f"all datasets with n={n}, m={m}", "pivots": "all sequences", "scheme": "12 symbolic reals", "paths": STATS.paths})
    return out


def run(run):
    sweep.install()
    if run.thorough:
        kern = [(1, 3), (2, 3), (3, 4), (4, 4)]
        light = {(1, 1): None, (2, 1): None, (2, 2): None, (3, 1): None, (3, 2): None, (4, 1): None, (4, 2): 150}
    else:
        kern = [(1, 3), (2, 3), (3, 4)]
        light = {(1, 1): None, (2, 1): None, (2, 2): None, (3, 1): None, (3, 2): 120, (4, 1): 12, (4, 2): 6}
    run.assumptions = ["random.choice returns an arbitrary element of its argument (all pivot sequences explored)", "float64 modelled as exact reals",
                       "kernel: product real x count linearised (count = sum of 0/1 indicators)", "end to end: shapes enumerated, scheme symbolic"]
    run.outside = ["m > 4 (kernel), n > 4 (end to end)", "other pivot strategies than uniform random"]
    run.rule = "kernel: one query per (m, n); end to end: one item per dataset, every path = one pivot sequence x one region of schemes"
    run.bounds["kernel [S] (m rankings, positions < n)"] = kern
    run.pmap("kernel", kernel, kern)
    items = sweep.make_items(run, ["KwikSortRandom"], [], flags=(True,), light=light, heavy=light)
    import random
    rnd = random.Random(run.seed)
    pool = [d for d in sweep.dataset_pool(3, 2) if all(sum(1 for v in r if v != -1) >= 2 for r in d)]
    hist = rnd.sample(pool, 40 if run.thorough else 10)
    for i, lvs in enumerate(hist):
        items.append(("KwikSortRandom", lvs, sweep.NAMINGS[3][i % 3], True, ["history", i % 3]))
    run.bounds["history scenario (aggregate, remove one element in place, aggregate again with the same object)"] = len(hist)
    run.pmap("item", item, items, chunksize=2)
    symb = [(2, 2), (3, 1), (3, 2)] + ([(2, 3), (2, 4)] if run.thorough else [])
    run.bounds["KwikSort on symbolic datasets [S over datasets and schemes, P over pivots] (n, m)"] = symb
    run.pmap("sym_kwik", sym_kwik, symb)
    run.extra["work_items"] = len(items)


def replay(p):
    if p.get("kind") == "kernel":
        import numpy as np
        from corankco.algorithms.kwiksort.kwiksortrandom import KwikSortRandom
        from corankco.scoringscheme import ScoringScheme
        sc = ScoringScheme([[float(x) for x in v] for v in p["scheme"]])
        pp, po = np.array(p["pivot"], dtype=np.int32), np.array(p["other"], dtype=np.int32)
        got = KwikSortRandom()._where_should_it_be(pp, po, np.asarray(sc.penalty_vectors))
        bf = sum(sc.b_vector[spec.status_c(a, b)] for a, b in zip(po, pp))
        af = sum(sc.b_vector[spec.status_c(b, a)] for a, b in zip(po, pp))
        ti = sum(sc.t_vector[spec.status_c(a, b)] for a, b in zip(po, pp))
        exp = 0 if (ti <= bf and ti <= af) else -1 if bf <= af else 1
        return (got > 0) - (got < 0) != exp, f"_where_should_it_be(pivot={list(pp)}, other={list(po)}) = {got}; costs before={bf} after={af} tied={ti}"
    # end to end: replay with pinned pivots and compare with the definition's preferences
    import corankco.algorithms.kwiksort.kwiksortrandom as KR
    sweep.install()
    steps, logging_choice, inner = make_step_logger()
    if "history" in p:
        from corankco.dataset import Dataset
        from corankco.scoringscheme import ScoringScheme
        from corankco.element import Element
        from vf import standins
        sc = ScoringScheme([[float(x) for x in v] for v in p["scheme"]])
        ds = Dataset.from_raw_list(shapes.from_json(p["history"]["first"]))
        alg, _ = sweep.make_config(p["config"])
        standins.PINNED[:] = []
        alg.compute_consensus_rankings(ds, sc, p["flag"])
        ds.remove_elements({Element(p["history"]["removed"])})
        standins.PINNED[:] = [c[1] for c in p.get("choices", []) if c[0] == "pivot"][-8:]
        KR.choice = logging_choice
        exc, cons, log = None, None, []
        try:
            cons = alg.compute_consensus_rankings(ds, sc, p["flag"])
        except Exception as e:  # noqa
            exc = e
        finally:
            KR.choice = inner
    else:
        KR.choice = logging_choice
        try:
            ds, sc, alg, cons, exc, log = sweep.concrete_run(p)
        finally:
            KR.choice = inner
    if exc is not None:
        return p["check"] == "raises", f"raised {type(exc).__name__}: {exc}"
    names, lvs = sweep.concrete_levels(p)

    def pref(x, y):
        bf = sum(sc.b_vector[spec.status_c(r.get(x, -1), r.get(y, -1))] for r in lvs)
        af = sum(sc.b_vector[spec.status_c(r.get(y, -1), r.get(x, -1))] for r in lvs)
        ti = sum(sc.t_vector[spec.status_c(r.get(x, -1), r.get(y, -1))] for r in lvs)
        return 0 if (ti <= bf and ti <= af) else -1 if bf <= af else 1
    lv = {el.value: i for i, b in enumerate(cons.consensus_rankings[0]) for el in b}
    if p["check"] == "placement":
        for seq, piv in steps:
            for el in seq:
                if el != piv:
                    obs = -1 if lv[el.value] < lv[piv.value] else 1 if lv[el.value] > lv[piv.value] else 0
                    if obs != pref(el.value, piv.value):
                        return True, f"{cons}: {el} placed {obs} relative to pivot {piv}, cheapest placement is {pref(el.value, piv.value)}"
        return False, "placements follow the preferences"
    for part in spec.ordered_partitions(names):
        w = {x: i for i, b in enumerate(part) for x in b}
        if all(pref(x, y) == (-1 if w[x] < w[y] else 1 if w[x] > w[y] else 0) for x, y in itertools.permutations(names, 2)):
            same = all((w[x] < w[y]) == (lv[x] < lv[y]) and (w[x] == w[y]) == (lv[x] == lv[y]) for x, y in itertools.combinations(names, 2))
            return (not same), f"preferences cohere into {part}; KwikSort returned {cons}"
    return False, "preferences do not cohere"
