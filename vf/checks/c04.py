"""C04 - the Kemeny score a consensus reports is the true score of each returned ranking.

[PxS] fork-mode sweep of all configurations: on every path |reported - definition score(r)| <= 1e-6 for every returned
      ranking r, for all penalties compatible with the path; reported >= 0 and present.
[S]   Engine M: _bio_consert with the local search replaced by a contract stub (initial score of every departure), and
      the inductive step of the local search bookkeeping (delta_dist' - delta_dist = score(r') - score(r)).
      The PuLP stand-in is validated against real PuLP+CBC on corner instances (n=1, all-zero objective, many optima).
"""
from vf import harness, sweep, fork, standins, spec
from vf.harness import STATS
from vf.checks import bio_kernels as bk

PID = "C04"

CORNERS = [[[[1]]], [[[1, 2]], [[1, 2]]], [[[1], [2]], [[2], [1]]], [[[1], [2], [3]], [[3], [2], [1]], [[2], [1, 3]]],
           [[["a"], ["b"]]], [[[1, 2, 3]]], [[[1], [2]], [[3]]]]


def validate_pulp(_):
    """real PuLP+CBC vs the stand-in on concrete corner instances; a real run that breaks the property is a candidate"""
    from corankco.dataset import Dataset
    from corankco.scoringscheme import ScoringScheme
    from corankco.algorithms.exact.exactalgorithmpulp import ExactAlgorithmPulp
    from vf import shapes
    out = []
    schemes = [ScoringScheme.get_unifying_scoring_scheme(), ScoringScheme.get_induced_measure_scoring_scheme_p(0.5),
               ScoringScheme([[0., 1., 0., 0., 0., 0.], [1., 1., 0., 1., 1., 1.]])]
    for rj in CORNERS:
        for sc in schemes:
            ds = Dataset.from_raw_list(shapes.from_json(rj))
            res = {}
            for mode in ("real", "standin"):
                if mode == "real":
                    standins.uninstall_pulp()
                else:
                    standins.install()
                try:
                    c = ExactAlgorithmPulp().compute_consensus_rankings(ds, sc, True)
                    names, lvs = sweep.concrete_levels({"rankings": rj})
                    res[mode] = (c.kemeny_score, sweep.cscore(c.consensus_rankings[0], names, lvs, sc))
                except Exception as e:  # noqa
                    res[mode] = ("exc", type(e).__name__)
            standins.install()
            STATS.validated += 1
            rep, true = res["real"]
            bad = rep == "exc" or rep is None or abs(rep - true) > 1e-6
            same = (res["real"][0] is None) == (res["standin"][0] is None) and \
                   (res["real"][0] is None or res["real"][0] == "exc" or abs(res["real"][0] - res["standin"][0]) < 1e-9)
            if not same:
                STATS.notes[f"pulp stand-in differs from real PuLP on {rj}: real={res['real']} standin={res['standin']}"] += 1
            if bad:
                out.append({"signature": {"site": "ExactPulp", "class": "score-absent" if rep is None else "score"},
                            "what": f"ExactPulp (real PuLP+CBC): reported score {rep} for {rj}, true score {true}",
                            "config": "ExactPulp", "rankings": rj, "flag": True, "check": "score",
                            "scheme": [list(sc.b_vector), list(sc.t_vector)], "choices": []})
    return out


def two_calls_item(args):
    """one algorithm object aggregates dataset A, then dataset B; the scores of BOTH consensuses are read afterwards (in the
    given order) and each must be the true score of its own rankings: a feature / score store shared between the results of
    one algorithm object shows here and nowhere in a single call"""
    cfg, lvA, lvB, names, first = args
    from vf import shapes
    sweep.install()
    out = []
    dsA, dsB = shapes.build(lvA, names), shapes.build(lvB, names)
    B, T = fork.scheme_vars()
    sc = fork.make_scheme(B, T)
    ex = fork.Explorer(fork.valid_scheme(B, T), max_paths=int(2e5))

    def path(ctx):
        log = []
        alg, _ = sweep.make_config(cfg, log)
        oA = sweep.observe(ctx, cfg, lvA, names, True, B, T, sc, dsA, alg=alg)
        oB = sweep.observe(ctx, cfg, lvB, names, True, B, T, sc, dsB, alg=alg)
        if oA.exc is not None or oB.exc is not None:
            return            # refusals / failures of single calls are the sweep's business
        for o, which in ((oA, "first"), (oB, "second")) if first == "A" else ((oB, "second"), (oA, "first")):
            k = len(out)
            sweep.chk_reported(o, out)
            for pl in out[k:]:
                pl["two_calls"] = {"A": shapes.raw_json(lvA, names), "B": shapes.raw_json(lvB, names), "read_first": first, "failing": which}
                pl["what"] = f"{cfg}: same algorithm object on two datasets, scores read afterwards ({first} first): the {which} consensus: " + pl["what"]
                pl["signature"] = dict(pl["signature"], history="two calls")
            if len(out) > k:
                return
    ex.explore(path)
    STATS.sample({"config": cfg, "same algorithm object on": [shapes.raw_json(lvA, names), shapes.raw_json(lvB, names)], "scores read": first + " first", "scheme": "12 symbolic reals"})
    return out


def run(run):
    sweep.install()
    cfgs = list(sweep.ALL_CONFIGS)
    if run.thorough:
        light = {(1, 1): None, (1, 2): None, (2, 1): None, (2, 2): None, (3, 1): None, (3, 2): 250, (4, 1): 20, (4, 2): 8}
        heavy = {(1, 1): None, (2, 1): None, (2, 2): None, (3, 1): None, (3, 2): 60, (4, 1): 4}
        kinit = [(2, 1), (3, 1), (3, 2), (4, 1), (4, 2), (5, 1)]
        kstep = [(n, e) for n in (2, 3, 4, 5) for e in range(n)]
    else:
        light = {(1, 1): None, (1, 2): None, (2, 1): None, (2, 2): None, (3, 1): None, (3, 2): 40, (4, 1): 4}
        heavy = {(1, 1): None, (2, 1): None, (2, 2): 10, (3, 1): 6, (3, 2): 8}
        kinit = [(2, 1), (3, 2), (4, 1)]
        kstep = [(n, e) for n in (2, 3, 4) for e in range(n)]
    run.assumptions = ["dataset shapes enumerated; scheme symbolic on every path", "float64 modelled as exact reals",
                       "ILP stand-ins return any optimal solution; PuLP stand-in compared with real PuLP+CBC on corner instances",
                       "inductive kernel checks: any dense r, any mirror-consistent real cost table"]
    run.outside = ["n > 4 in the sweep, n > 5 in the kernels", "float accumulation error of long local searches"]
    run.rule = "one item per (configuration, dataset, flag); on every path one query per returned ranking; kernels: one query per post-condition"
    run.bounds["_bio_consert initial score [S] (n, departures)"] = kinit
    run.bounds["_improve_one_ranking inductive step [S] (n, element)"] = kstep
    run.pmap("validate_pulp", validate_pulp, [0], workers=1)
    run.pmap("bk.init_score_check", bk.init_score_check, kinit)
    run.pmap("bk.step_check", bk.step_check, kstep)
    items = sweep.make_items(run, cfgs, ["reported"], light=light, heavy=heavy)
    items += sweep.history_items(run, [c for c in cfgs if c not in sweep.HEAVY or run.thorough], ["reported"], 4 if run.thorough else 2)
    run.pmap("sweep.run_item", sweep.run_item, sweep.order_items(items), chunksize=1)
    import random
    rnd = random.Random(run.seed + 3)
    pool = sweep.dataset_pool(3, 2)
    tc = []
    for cfg in ["Borda", "Copeland", "PickAPerm", "KwikSortRandom", "ExactPulp", "ExactCplex(opt)", "ParCons", "ParCons(1,Copeland)", "BioCo", "BioConsert[Copeland]"]:
        for i in range((4 if run.thorough else 2) if cfg not in sweep.HEAVY else 1):
            a, b = rnd.choice(pool), rnd.choice(pool)
            if cfg == "PickAPerm":
                a, b = tuple(r for r in a if -1 not in r) or ((0, 1, 2),), tuple(r for r in b if -1 not in r) or ((2, 1, 0),)
            tc.append((cfg, a, b, sweep.NAMINGS[3][i % 3], "AB"[i % 2]))
        tc.append((cfg, ((0, 1, 2), (0, 1, 2)), ((2, 1, 0), (0, 0, 1)), [1, 2, 3], "B"))
    run.bounds["same algorithm object on two datasets, scores read afterwards"] = len(tc)
    run.pmap("two_calls", two_calls_item, tc, chunksize=1)
    run.part("validate_engine_f", lambda: sweep.validate_engine_f(run, 40 if run.thorough else 14))
    run.extra["work_items"] = len(items) + len(tc)
    run.extra["stubs"] = sweep.install()


def replay_two_calls(p):
    from corankco.dataset import Dataset
    from corankco.scoringscheme import ScoringScheme
    from vf import shapes
    sweep.install()
    tc = p["two_calls"]
    sc = ScoringScheme([[float(x) for x in v] for v in p["scheme"]])
    standins.PINNED[:] = [c[1] for c in p.get("choices", [])]
    alg, _ = sweep.make_config(p["config"], [])
    if p["config"] in ("ExactPulp", "Exact(opt,nocplex)", "ParCons(nocplex)"):
        standins.uninstall_pulp()
    res = {}
    for k in ("A", "B"):
        ds = Dataset.from_raw_list(shapes.from_json(tc[k]))
        res[k] = alg.compute_consensus_rankings(ds, sc, True)
    for k in (("A", "B") if tc["read_first"] == "A" else ("B", "A")):
        names, lvs = sweep.concrete_levels({"rankings": tc[k]})
        rep = res[k].kemeny_score
        for r in res[k].consensus_rankings:
            t = sweep.cscore(r, names, lvs, sc)
            if rep is None or abs(rep - t) > 1e-6:
                return True, f"consensus of dataset {k} reports {rep} but {r} scores {t}"
    return False, "both consensuses report their own true score"


def replay(p):
    if "two_calls" in p:
        return replay_two_calls(p)
    if "cost" in p or p["signature"]["site"] in ("_bio_consert",):
        return bk.replay_kernel(p)
    return sweep.replay(p)
