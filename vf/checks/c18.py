"""C18 - rankings survive a round trip through text and through a file; any other text is parsed or refused with ValueError.

[S]  Engine M with a bounded symbolic string model (vf/mstr.py) on the real source of parse_ranking_with_ties:
     * totality: the input is ANY string of length <= L over code points 0..127 (L symbolic characters and a symbolic
       length): every `raise` reached is a ValueError, every string index is in range (no IndexError), and both loops
       exit within the unwinding bound (no hang) - unwinding and index obligations discharged by the solver;
     * round trip: for templates rendered as str(Ranking) does (brace and bracket notation, optional name prefix and
       surrounding whitespace; shapes up to 3 buckets x 2 elements, element lengths 1-2) with the element characters
       symbolic over the allowed alphabet: the parser does not raise and returns exactly the template's buckets and element
       spans.
     The string model is validated on every run against CPython: the symbolic outcome is evaluated on random concrete
     strings and compared with the real function.
[P]  above the parser: Ranking.from_string(str(r)) == r on concrete instances of every template (int and string names).
[S]  file round trip: write_rankings and get_rankings_from_file on a modelled file (see file_check).
Outside the claim: the operating system's file layer, Dataset.__eq__ of the objects read back (C17), code points >= 128.
"""
import itertools, random
import z3
from vf import harness, merge, fork
from vf.mstr import MStr, MBag
from vf.harness import STATS

PID = "C18"
DELIMS = "[]{},:"
ALPHABET_OK = lambda c: z3.And(c >= 33, c <= 126, *[c != ord(d) for d in DELIMS])  # noqa


def run_parser(L, chars, length, pre=None):
    from corankco import utils
    I = merge.new_interp(unwind=L + 2)
    I.ctx.bags = True
    if pre is not None:
        I.ctx.pre_solver = harness.solver(60000)
        I.ctx.pre_solver.add(*pre)
    s = MStr(chars, 0, length)
    conv = lambda x: x  # noqa  (the converter wraps the text in an Element; it cannot fail on a str)
    ret = I.call_function(utils.parse_ranking_with_ties, [s, conv])
    STATS.encoded.update(I.ctx.encoded)
    return I, ret


def totality(L):
    out = []
    chars = [z3.Int(f"c{i}") for i in range(L)]
    length = z3.Int("len")
    pre = [z3.And(c >= 0, c < 128) for c in chars] + [length >= 0, length <= L]
    I, ret = run_parser(L, chars, length)
    s = harness.solver(300000)
    s.add(*pre)
    if harness.check(s, "vacuity") != "sat":
        raise harness.HarnessError("vacuous")

    def text_of(mdl):
        n = harness.zval(mdl, length)
        return "".join(chr(harness.zval(mdl, chars[i])) for i in range(n))
    for g, name in I.ctx.raises:
        if name != "ValueError":
            r, mdl = harness.refute(s, "property", merge.to_z3(g) if g is not True else z3.BoolVal(True))
            if r == "sat":
                out.append({"signature": {"site": "parse_ranking_with_ties", "class": "raises-" + name}, "kind": "totality",
                            "what": f"raises {name} (not ValueError)", "text": text_of(mdl)})
            elif r != "unsat":
                raise harness.Inconclusive("raise reachability unknown")
    for txt, r, mdl in merge.discharge_obligations(I, s):
        if mdl is None:
            raise harness.Inconclusive(txt)
        out.append({"signature": {"site": "parse_ranking_with_ties", "class": txt.split(" ")[0]}, "kind": "totality",
                    "what": f"{txt}", "text": text_of(mdl)})
    STATS.states += 1
    STATS.sample({"totality": f"any string of length <= {L} over code points 0..127", "raise sites": len(I.ctx.raises),
                  "obligations": len(I.ctx.obligations)})
    # ---- validation of the string model against CPython on random concrete strings
    from corankco import utils
    rnd = random.Random(L)
    alpha = "[]{},: \tab1"
    raised = z3.Or(*[merge.to_z3(g) if g is not True else z3.BoolVal(True) for g, _ in I.ctx.raises]) if I.ctx.raises else z3.BoolVal(False)
    for _ in range(40):
        n = rnd.randint(0, L)
        txt = "".join(rnd.choice(alpha) for _ in range(n)) if rnd.random() < 0.6 else rnd.choice(["[{a},{b}]", "[[a],[b]]", "[{a, b}]", "[[]]", "[]", "x:[{1}]", "[{a}", "{a}]", "[{a},]", "[{a},{}]"])[:L]
        n = len(txt)
        s.push()
        s.add(length == n, *[chars[i] == ord(txt[i]) for i in range(n)])
        if harness.check(s, "validation") != "sat":
            raise harness.HarnessError("validation query not sat")
        mdl = s.model()
        sym_raise = z3.is_true(mdl.eval(raised, model_completion=True))
        sym_res = None
        if not sym_raise and isinstance(ret, MBag):
            sym_res = []
            for g, bag in ret.items:
                if g is True or z3.is_true(mdl.eval(merge.to_z3(g), model_completion=True)):
                    sym_res.append(sorted(v.value(mdl) for gg, v in bag.items if gg is True or z3.is_true(mdl.eval(merge.to_z3(gg), model_completion=True))))
        s.pop()
        import io, contextlib
        try:
            with contextlib.redirect_stdout(io.StringIO()):
                real = [sorted(str(e) for e in b) for b in utils.parse_ranking_with_ties_of_str(txt)]
            real_raise = False
        except ValueError:
            real, real_raise = None, True
        except Exception as e:  # noqa  - the real parser fails with something else on a concrete text: a totality candidate in itself
            out.append({"signature": {"site": "parse_ranking_with_ties", "class": "raises-" + type(e).__name__}, "kind": "totality",
                        "what": f"raises {type(e).__name__} (not ValueError) on {txt!r}", "text": txt})
            continue
        if real_raise != sym_raise or (not real_raise and real != [sorted(set(b)) for b in (sym_res or [])]):
            raise harness.HarnessError(f"string model disagrees with CPython on {txt!r}: model raise={sym_raise} result={sym_res}, real raise={real_raise} result={real}")
        STATS.validated += 1
    return out


def wrapper_totality(L):
    """Ranking.from_string around the scanner: the scanner is stubbed (its own totality is checked separately) and returns no
    bucket; whatever the wrapper does with the text before / after that call must not raise anything but ValueError"""
    from corankco.ranking import Ranking
    from corankco import utils
    import corankco.ranking as RK
    out = []
    chars = [z3.Int(f"c{i}") for i in range(L)]
    length = z3.Int("len")
    pre = [z3.And(c >= 0, c < 128) for c in chars] + [length >= 0, length <= L]
    I = merge.new_interp(unwind=L + 2)
    I.ctx.bags = False
    I.models[RK.parse_ranking_with_ties_of_str] = lambda I_, s_: []
    I.models[utils.parse_ranking_with_ties_of_str] = lambda I_, s_: []
    fn = Ranking.__dict__["from_string"]
    I.call_function(fn, [Ranking, MStr(chars, 0, length)])
    STATS.encoded.update(I.ctx.encoded)
    s = harness.solver(300000)
    s.add(*pre)

    def text_of(mdl):
        n = harness.zval(mdl, length)
        return "".join(chr(harness.zval(mdl, chars[i])) for i in range(n))
    for g, name in I.ctx.raises:
        if name != "ValueError":
            r, mdl = harness.refute(s, "property", merge.to_z3(g) if g is not True else z3.BoolVal(True))
            if r == "sat":
                out.append({"signature": {"site": "Ranking.from_string", "class": "raises-" + name}, "kind": "wrapper", "what": f"from_string raises {name}", "text": text_of(mdl)})
            elif r != "unsat":
                raise harness.Inconclusive("raise reachability unknown")
    for txt, r, mdl in merge.discharge_obligations(I, s):
        if mdl is None:
            raise harness.Inconclusive(txt)
        out.append({"signature": {"site": "Ranking.from_string", "class": txt.split(" ")[0]}, "kind": "wrapper", "what": "from_string: " + txt, "text": text_of(mdl)})
    STATS.states += 1
    STATS.sample({"from_string wrapper": f"any string of length <= {L}; scanner stubbed", "obligations": len(I.ctx.obligations)})
    return out


def decision_lemma(L):
    """[S] the int-or-string decision of Ranking.from_string / Dataset: Element(name).can_be_int() for a name of <= L symbolic
    characters (code points < 128, no delimiter) holds exactly when the name is a non-empty string of decimal digits, i.e.
    exactly when int(name) cannot fail and str(int(name)) denotes the same integer"""
    from corankco.element import Element
    out = []
    chars = [z3.Int(f"c{i}") for i in range(L)]
    length = z3.Int("len")
    pre = [ALPHABET_OK(c) for c in chars] + [length >= 1, length <= L]

    class _El:
        _type = str
    el = _El()
    el._value = MStr(chars, 0, length)
    I = merge.new_interp(unwind=L + 2)
    r = I.call_function(Element.can_be_int, [el])
    STATS.encoded.update(I.ctx.encoded)
    digits = z3.And(*[z3.Implies(k < length, z3.And(chars[k] >= 48, chars[k] <= 57)) for k in range(L)])
    s = harness.solver(120000)
    s.add(*pre)
    rz = merge.to_z3(r) if not isinstance(r, bool) else z3.BoolVal(r)
    res, mdl = harness.refute(s, "property", rz != digits)
    if res == "sat":
        n = harness.zval(mdl, length)
        name = "".join(chr(harness.zval(mdl, chars[i])) for i in range(n))
        out.append({"signature": {"site": "Element.can_be_int", "class": "decision"}, "kind": "decision", "name": name,
                    "what": f"Element({name!r}).can_be_int() answers {not name.isdigit()}, but the name is{'' if name.isdigit() else ' not'} a decimal integer"})
    elif res != "unsat":
        raise harness.Inconclusive("decision lemma unknown")
    for g, nm in I.ctx.raises:
        out.append({"signature": {"site": "Element.can_be_int", "class": "raises"}, "kind": "decision", "name": "a", "what": f"can_be_int raises {nm}"})
    STATS.states += 1
    return out


SHAPES = [[1], [2], [1, 1], [2, 1], [1, 2], [1, 1, 1], [2, 2], [1, 2, 1]]
DECOR = [("", ""), ("  ", " "), ("r1: ", ""), ("name :", "\n"), (" ", "  \t")]


def render(shape, lens, brace, pre, suf):
    """layout of str(Ranking) with placeholders: list of tokens, each a literal char or ('e', bucket, elem, k)"""
    toks = list(pre) + ["["]
    e = 0
    for i, size in enumerate(shape):
        if i:
            toks += [",", " "]
        toks.append("{" if brace else "[")
        for j in range(size):
            if j:
                toks += [",", " "]
            for k in range(lens[e]):
                toks.append(("e", i, j, k))
            e += 1
        toks.append("}" if brace else "]")
    toks += ["]"] + list(suf)
    return toks


def roundtrip(args):
    shape, lens, brace, (pre, suf) = args
    out = []
    toks = render(shape, lens, brace, pre, suf)
    L = len(toks)
    chars, evars = [], {}
    for t in toks:
        if isinstance(t, str):
            chars.append(z3.IntVal(ord(t)))
        else:
            v = z3.Int("e_%d_%d_%d" % t[1:])
            evars[t[1:]] = v
            chars.append(v)
    pre_c = [ALPHABET_OK(v) for v in evars.values()]
    I, ret = run_parser(L, chars, L, pre_c)
    s = harness.solver(300000)
    s.add(*pre_c)
    if harness.check(s, "vacuity") != "sat":
        raise harness.HarnessError("vacuous")

    def cex(mdl, what):
        txt = "".join(chr(harness.zval(mdl, c)) if not z3.is_int_value(c) else chr(c.as_long()) for c in chars)
        return {"signature": {"site": "parse_ranking_with_ties", "class": what.split(":")[0]}, "kind": "roundtrip", "what": what, "text": txt,
                "expected": [[("".join(chr(harness.zval(mdl, evars[(i, j, k)])) for k in range(lens[sum(shape[:i]) + j]))) for j in range(shape[i])] for i in range(len(shape))]}
    raised = z3.Or(*[merge.to_z3(g) if g is not True else z3.BoolVal(True) for g, _ in I.ctx.raises]) if I.ctx.raises else z3.BoolVal(False)
    r, mdl = harness.refute(s, "property", raised)
    if r == "sat":
        out.append(cex(mdl, "raises: the textual form of a ranking is refused"))
        return out
    if r != "unsat":
        raise harness.Inconclusive("raise query unknown")
    if not isinstance(ret, MBag):
        raise harness.HarnessError("unexpected return value of the parser")
    conj = []
    nb = len(shape)
    for bi, (g, bag) in enumerate(ret.items):
        gz = merge.to_z3(g) if g is not True else z3.BoolVal(True)
        if bi >= nb:
            conj.append(z3.Not(gz))
            continue
        conj.append(gz)
        if not isinstance(bag, MBag):
            raise harness.HarnessError("bucket is not a guarded container")
        for ej, (gg, v) in enumerate(bag.items):
            ggz = merge.to_z3(gg) if gg is not True else z3.BoolVal(True)
            if ej >= shape[bi]:
                conj.append(z3.Implies(gz, z3.Not(ggz)))
                continue
            ln = lens[sum(shape[:bi]) + ej]
            same = [v.length == ln] + [v.char_at(v.start + k) == evars[(bi, ej, k)] for k in range(ln)]
            conj.append(z3.And(ggz, *same))
        if len(bag.items) < shape[bi]:
            conj.append(z3.BoolVal(False))
    if len(ret.items) < nb:
        conj.append(z3.BoolVal(False))
    r, mdl = harness.refute(s, "property", z3.Not(z3.And(*conj)))
    if r == "sat":
        out.append(cex(mdl, "buckets: the parsed buckets / element spans differ from the ranking's"))
    elif r != "unsat":
        raise harness.Inconclusive("round-trip query unknown")
    for txt, rr, mdl2 in merge.discharge_obligations(I, s):
        if mdl2 is None:
            raise harness.Inconclusive(txt)
        out.append(cex(mdl2, "obligation: " + txt))
    STATS.states += 1
    STATS.sample({"template": "".join(t if isinstance(t, str) else "?" for t in toks), "element characters": "symbolic over the allowed alphabet"}, cap=8)
    return out


def concrete_roundtrip(_):
    """[P] above the parser: Ranking.from_string(str(r)) == r"""
    from corankco.ranking import Ranking
    out = []
    pools = [[1, 2, 3, 40, 5, 0], ["a", "b", "cd", "e_f", "G", "x1"], [7, 11, 3, 8, 100, 42],
             ["1a", "2b", "42nd", "7_", "0x", "9-z"], ["a1", "10", "b", "2", "c3", "4"], ["-1", "+2", "1.5", "1e3", "3", "0"]]
    for shape in SHAPES:
        for pool in pools:
            it = iter(pool)
            buckets = [{next(it) for _ in range(size)} for size in shape]
            r = Ranking(buckets)
            for txt in (str(r), str(r).replace("{", "[").replace("}", "]"), "  " + str(r) + " \n", "r1 : " + str(r)):
                try:
                    back = Ranking.from_string(txt)
                    ok = back == r
                except Exception as e:  # noqa
                    ok, back = False, f"{type(e).__name__}: {e}"
                STATS.q["roundtrip-concrete:checked"] += 1
                if not ok:
                    out.append({"signature": {"site": "Ranking.from_string", "class": "concrete"}, "kind": "concrete", "what": f"from_string({txt!r}) = {back}, expected {r}",
                                "text": txt, "buckets": [sorted(b, key=str) for b in buckets]})
    return out



# ---------------------------------------------------------------- file round trip: writer and reader around the parser
class _Tmpl:
    """a ranking handed to write_rankings: str() of it is the rendered line (layout of str(list of sets), symbolic names)"""
    def __init__(self, chars):
        self.chars = chars


class _MFile:
    is_model_context = True

    def __init__(self, fs, path, mode):
        self.fs, self.path, self.mode = fs, path, mode
        if "w" in mode:
            fs[path] = []

    def write(self, x):
        self.fs[self.path].extend(x.chars if isinstance(x, _Tmpl) else [z3.IntVal(ord(ch)) for ch in x])

    def read(self):
        buf = self.fs[self.path]
        return MStr(list(buf), 0, len(buf))


def file_check(args):
    """[S] the real sources of write_rankings and get_rankings_from_file are executed by Engine M on a modelled file (a
    buffer of code points; `open` returns a stand-in, the os.path tests answer what 'a fresh file in an existing directory'
    means); the rankings written are templates with symbolic element names; the two parsers are stubbed (their own
    round trip is the [S] template check above) and record the line they are given.  Claim: the reader hands to the
    parser exactly the lines the writer wrote, in order, nothing dropped, nothing else; when the int parser refuses a
    line (variant `refuse`), all lines go to the str parser.  With the parser-level round trip this composes to: the
    rankings read back are the rankings written."""
    import os
    from corankco import utils
    from vf import mstr
    spec_lines, refuse = args[:2]
    PATH = args[2] if len(args) > 2 else "/nowhere/dataset.txt"
    out = []
    fs, lines, spans, evars_all, pre_c = {}, [], [], [], []
    off = 0
    for li, (shape, lens) in enumerate(spec_lines):
        toks = render(shape, lens, True, "", "")
        chars, names = [], {}
        for t in toks:
            if isinstance(t, str):
                chars.append(z3.IntVal(ord(t)))
            else:
                v = z3.Int("f%d_e_%d_%d_%d" % ((li,) + t[1:]))
                names.setdefault(t[1:3], []).append(v)
                pre_c.append(ALPHABET_OK(v))
                chars.append(v)
        # names of one ranking are pairwise different
        ks = list(names)
        for a in range(len(ks)):
            for b in range(a + 1, len(ks)):
                if len(names[ks[a]]) == len(names[ks[b]]):
                    pre_c.append(z3.Or(*[x != y for x, y in zip(names[ks[a]], names[ks[b]])]))
        lines.append(_Tmpl(chars))
        evars_all.append((shape, lens, names))
        spans.append((off, len(chars)))
        off += len(chars) + 1
    mstr.SIDE.clear()
    # modelled file system: working directory /cwd, existing directories DIRS, no file yet (CPython's os.path.isdir("") is False)
    import posixpath
    CWD, DIRS = "/cwd", {"/", "/nowhere", "/cwd", "/cwd/sub"}

    def m_abspath(q):
        return posixpath.normpath(posixpath.join(CWD, q))

    def interp():
        I = merge.new_interp(unwind=8)
        I.ctx.bags = False
        I.ctx.pre_solver = harness.solver(60000)
        I.ctx.pre_solver.add(*pre_c)
        I.models[open] = lambda I_, path, mode="r", encoding=None: _MFile(fs, path, mode)
        I.models[os.path.isdir] = lambda I_, q: q != "" and m_abspath(q) in DIRS   # the directory exists, the path is not one
        I.models[os.path.abspath] = lambda I_, q: m_abspath(q)
        I.models[os.path.isfile] = lambda I_, q: False                            # fresh file
        I.models[str] = lambda I_, x: x if isinstance(x, _Tmpl) else str(x)
        return I
    I = interp()
    I.call_function(utils.write_rankings, [lines, PATH])
    STATS.encoded.update(I.ctx.encoded)
    if PATH not in fs:
        return [{"signature": {"site": "write_rankings", "class": "nothing-written"}, "kind": "file", "what": f"write_rankings wrote nothing to the fresh path {PATH!r} (working directory {CWD}, existing directories {sorted(DIRS)})",
                 "rankings": None, "path": PATH, "spec": [list(map(list, x)) for x in spec_lines]}]
    calls = []

    def parser(kind):
        def model(I_, line):
            calls.append((kind, line))
            if kind == "int" and refuse is not None and sum(1 for k, _ in calls if k == "int") == refuse + 1:
                I_.ctx.raises.append((I_.cur_guard, "ValueError"))
            return line
        return model
    I2 = interp()
    I2.models[utils.parse_ranking_with_ties_of_int] = parser("int")
    I2.models[utils.parse_ranking_with_ties_of_str] = parser("str")
    ret = I2.call_function(utils.get_rankings_from_file, [PATH])
    STATS.encoded.update(I2.ctx.encoded)
    s = harness.solver(300000)
    s.add(*pre_c)
    if harness.check(s, "vacuity") != "sat":
        raise harness.HarnessError("vacuous")
    buf = fs[PATH]

    def cex(mdl, what):
        rk = []
        for shape, lens, names in evars_all:
            rk.append([["".join(chr(harness.zval(mdl, v)) for v in names[(i, j)]) for j in range(shape[i])] for i in range(len(shape))])
        return {"signature": {"site": "get_rankings_from_file", "class": what.split(":")[0]}, "kind": "file", "what": what, "rankings": rk,
                "text": "".join(chr(harness.zval(mdl, c)) for c in buf)}
    s.push()
    s.check()
    some = s.model()
    s.pop()
    for g, name in I2.ctx.raises + I.ctx.raises:
        r, mdl = harness.refute(s, "property", merge.to_z3(g) if g is not True else z3.BoolVal(True))
        if r == "sat":
            out.append(cex(mdl, f"raises: reading back the written file raises {name}" + (" (int parser refused one line)" if refuse is not None else "")))
            return out
        if r != "unsat":
            raise harness.Inconclusive("raise reachability unknown")
    for II in (I, I2):
        for txt, rr, mdl2 in merge.discharge_obligations(II, s):
            if mdl2 is None:
                raise harness.Inconclusive(txt)
            out.append(cex(mdl2, "obligation: " + txt))
    for g, cnd, txt in mstr.SIDE:
        s.push()
        if g is not True:
            s.add(merge.to_z3(g))
        r = harness.check(s, "model-side-condition", z3.Not(cnd))
        s.pop()
        if r != "unsat":
            raise harness.Inconclusive(txt + ": side condition not proved")
    if out:
        return out
    if not isinstance(ret, list) or not all(isinstance(x, MStr) for x in ret):
        raise harness.HarnessError("unexpected return value of get_rankings_from_file")
    if len(ret) != len(spans):
        out.append(cex(some, f"lines: {len(spans)} rankings written, {len(ret)} lines reach the parser"))
        return out
    want = "str" if refuse is not None else "int"
    used = [ln for k, ln in calls if k == want]
    conj = [z3.And(v.start == st, v.length == ln) for v, (st, ln) in zip(ret, spans)]
    conj += [z3.And(v.start == st, v.length == ln) for v, (st, ln) in zip(used, spans)]
    if len(used) != len(spans):
        out.append(cex(some, f"lines: {len(spans)} rankings written, {len(used)} lines handed to the {want} parser"))
        return out
    r, mdl = harness.refute(s, "property", z3.Not(z3.And(*conj)) if conj else z3.BoolVal(False))
    if r == "sat":
        out.append(cex(mdl, "lines: the text handed to the parser is not the line that was written"))
    elif r != "unsat":
        raise harness.Inconclusive("line-span query unknown")
    STATS.states += 1
    STATS.sample({"file": "|".join("".join(chr(c.as_long()) if z3.is_int_value(c) else "?" for c in t.chars) for t in lines),
                  "int parser": "accepts" if refuse is None else f"refuses line {refuse}"}, cap=8)
    return out


def concrete_file_roundtrip(_):
    """[P] above the reader: Dataset.write / Dataset.get_dataset_from_file on real temporary files"""
    import tempfile, shutil, os
    from corankco.dataset import Dataset
    out = []
    cases = [[[[1], [2, 3]], [[3], [1], [2]]], [[["a"], ["b", "c"]], [["c", "b", "a"]]], [[[5]]], [[["x1", "y"]], [["y"], ["x1"]]],
             [[[10, 2]], [[2], [10]], [[2, 10]]], [[[1], [2]], [], [[2], [1]]], [[["a"]], []]]
    tmp = tempfile.mkdtemp(prefix="vf_c18_")
    try:
        for i, c in enumerate(cases):
            ok, detail = _file_rt(c, os.path.join(tmp, f"d{i}.txt"))
            STATS.q["roundtrip-file-concrete:checked"] += 1
            if not ok:
                out.append({"signature": {"site": "Dataset.write/get_dataset_from_file", "class": "concrete"}, "kind": "file", "what": detail, "rankings": c})
    finally:
        shutil.rmtree(tmp, ignore_errors=True)
    return out


def _file_rt(rk, path):
    from corankco.dataset import Dataset
    ds = Dataset.from_raw_list([[set(b) for b in r] for r in rk])
    before = [[sorted(str(e) for e in b) for b in r] for r in ds.rankings]
    ds.write(path)
    try:
        back = Dataset.get_dataset_from_file(path)
    except Exception as e:  # noqa
        return False, f"reading back {before} raised {type(e).__name__}: {e}"
    after = [[sorted(str(e) for e in b) for b in r] for r in back.rankings]
    types_b = sorted({e.type.__name__ for r in ds.rankings for b in r for e in b})
    types_a = sorted({e.type.__name__ for r in back.rankings for b in r for e in b})
    if before != after or types_a != types_b:
        return False, f"written {before} ({types_b}), read back {after} ({types_a})"
    return True, "same rankings read back"


PATH_FORMS = ["dataset.txt", "./dataset.txt", "sub/dataset.txt", "../nowhere/dataset.txt", "/cwd/sub/../d.txt", "/dataset.txt"]


def dispatch(a):
    return {"t": totality, "r": roundtrip, "c": concrete_roundtrip, "w": wrapper_totality, "f": file_check, "fc": concrete_file_roundtrip,
            "d": decision_lemma}[a[0]](a[1])


def run(run):
    Ls = [3, 5, 7, 9] if not run.thorough else [4, 6, 8, 10, 12]
    jobs = [("t", L) for L in Ls] + [("c", 0), ("w", 4), ("w", 8), ("fc", 0)]
    rnd = random.Random(run.seed)
    # file round trip: every one-line file over the shapes (and the empty ranking), sampled two- and three-line files
    fshapes = [[]] + SHAPES
    flines = [(sh, [1] * sum(sh)) for sh in fshapes] + [(sh, [rnd.choice([1, 2, 3]) for _ in range(sum(sh))]) for sh in SHAPES]
    files = [[l] for l in flines]
    files += [[rnd.choice(flines) for _ in range(k)] for k in (2, 2, 2, 3, 3) for _ in range(3 if not run.thorough else 12)]
    files += [[flines[1], flines[0], flines[3]], [flines[0], flines[2]], [flines[2], flines[0]]]
    nfile = 0
    files = [f for f in files if any(sh for sh, _ in f)]      # a dataset has at least one element
    for f in files:
        for refuse in [None] + list(range(len(f))):
            jobs.append(("f", (f, refuse)))
            nfile += 1
    # the ways a caller can name a fresh file in an existing directory (modelled working directory /cwd)
    for form in PATH_FORMS:
        for f in files[1:3]:
            jobs.append(("f", (f, None, form)))
            nfile += 1
    for shape in SHAPES:
        for brace in (True, False):
            n = sum(shape)
            lens_list = [[1] * n, [2] + [1] * (n - 1), [rnd.choice([1, 2, 3]) for _ in range(n)]] + ([[rnd.choice([1, 2, 3]) for _ in range(n)] for _ in range(3)] if run.thorough else [])
            for lens in lens_list:
                for d in DECOR:
                    if len(render(shape, lens, brace, *d)) <= 40:
                        jobs.append(("r", (shape, lens, brace, d)))
    run.bounds = {"totality [S]: strings of length <= L over code points 0..127, L in": Ls,
                  "round trip [S]: templates": sum(1 for j in jobs if j[0] == "r"), "shapes": SHAPES, "element lengths": "1-3 characters",
                  "decorations": DECOR,
                  "file round trip [S]: (file, refusing line) pairs": nfile, "files": "1-3 lines, each a rendered ranking (incl. the empty ranking) with symbolic names"}
    run.assumptions = ["bounded string model (vf/mstr.py): strip / split / replace / find / rfind / slices / endswith / == with CPython semantics for "
                       "code points < 128, validated against CPython on random strings on every run",
                       "the converter (Element(str(x))) cannot fail on a str", "print and message formatting have no effect",
                       "file check: both parsers stubbed (assume-guarantee with the parser-level round trip); removal of the two-character "
                       "pattern backslash-newline modelled as the identity under the proved side condition that it does not occur"]
    run.outside = ["strings longer than the bounds", "code points >= 128 (Unicode whitespace / digits)",
                   "the operating system's file layer (open / read / write are a buffer of code points; os.path answers from a modelled tree: working directory /cwd, a handful of existing directories, the file fresh, named by an absolute path, a bare name, ./name, sub/name, ../dir/name); files of more than 3 rankings; "
                   "Dataset equality of the objects read back (C17) - rankings are compared bucket by bucket",
                   "the int-or-string decision above the parser: its predicate is an [S] lemma (names of <= 4 characters), its use in "
                   "Ranking.from_string / Dataset is exercised on concrete instances (incl. names that start with digits, signs, decimals)"]
    run.rule = "totality: one query per raise site and per obligation; round trip: two queries per template (no raise; buckets and spans equal)"
    # parts are isolated: an unsupported construct met by one engine part must not hide what another part found
    run.pmap("concrete round trips", dispatch, [j for j in jobs if j[0] in ("c", "fc")])
    run.pmap("decision lemma", dispatch, [("d", 4)])
    run.pmap("totality", dispatch, [j for j in jobs if j[0] in ("t", "w")])
    run.pmap("template round trips", dispatch, [j for j in jobs if j[0] == "r"])
    run.pmap("file round trips", dispatch, [j for j in jobs if j[0] == "f"])


def replay(p):
    from corankco import utils
    from corankco.ranking import Ranking
    if p["kind"] == "concrete":
        r = Ranking([set(b) for b in p["buckets"]])
        try:
            back = Ranking.from_string(p["text"])
            return not (back == r), f"from_string({p['text']!r}) = {back}"
        except Exception as e:  # noqa
            return True, f"from_string({p['text']!r}) raised {type(e).__name__}: {e}"
    if p["kind"] == "decision":
        from corankco.element import Element
        try:
            got = Element(p["name"]).can_be_int()
        except Exception as e:  # noqa
            return True, f"can_be_int({p['name']!r}) raised {type(e).__name__}: {e}"
        return bool(got) != p["name"].isdigit(), f"Element({p['name']!r}).can_be_int() = {got}"
    if p["kind"] == "file":
        import tempfile, shutil, os
        tmp = tempfile.mkdtemp(prefix="vf_c18_")
        try:
            path = os.path.join(tmp, "dataset.txt")
            if p.get("rankings") is None:
                from corankco.dataset import Dataset
                form = p.get("path", "/nowhere/dataset.txt")
                # the modelled tree rebuilt under a scratch root: <tmp>/cwd is the working directory
                for d in ("cwd/sub", "nowhere"):
                    os.makedirs(os.path.join(tmp, d))
                path = tmp + form if form.startswith("/") else form
                old = os.getcwd()
                os.chdir(os.path.join(tmp, "cwd"))
                try:
                    Dataset.from_raw_list([[{1}, {2}]]).write(path)
                    return not os.path.isfile(path), f"write({path!r}) from {os.getcwd()}: file written: {os.path.isfile(path)}"
                finally:
                    os.chdir(old)
            ok, detail = _file_rt(p["rankings"], path)
            return (not ok), detail
        finally:
            shutil.rmtree(tmp, ignore_errors=True)
    txt = p["text"]
    if p["kind"] == "wrapper":
        try:
            Ranking.from_string(txt)
            return False, f"from_string({txt!r}) returned"
        except ValueError as e:
            return False, f"ValueError: {e}"
        except Exception as e:  # noqa
            return True, f"from_string({txt!r}) raised {type(e).__name__}: {e}"
    import signal

    def on_alarm(*a):
        raise TimeoutError("parser did not return within 5 s")
    signal.signal(signal.SIGALRM, on_alarm)
    signal.alarm(5)
    try:
        res = utils.parse_ranking_with_ties_of_str(txt)
    except ValueError as e:
        signal.alarm(0)
        if p["kind"] == "roundtrip":
            return True, f"{txt!r} refused: {e}"
        return False, f"ValueError: {e}"
    except TimeoutError as e:
        return True, f"{txt!r}: {e}"
    except Exception as e:  # noqa
        signal.alarm(0)
        return True, f"{txt!r} raised {type(e).__name__}: {e}"
    signal.alarm(0)
    if p["kind"] == "roundtrip":
        got = [sorted(str(e) for e in b) for b in res]
        exp = [sorted(b) for b in p["expected"]]
        return got != exp, f"parse({txt!r}) = {got}, expected {exp}"
    return False, f"parsed {res}"
