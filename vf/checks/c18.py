"""C18 - rankings survive a round trip through text (parser level); any other text is parsed or refused with ValueError.

[S]  Engine M with a bounded symbolic string model (vf/mstr.py) on the real source of parse_ranking_with_ties:
     * totality: the input is ANY string of length <= L over code points 0..127 (L symbolic characters and a symbolic
       length): every `raise` reached is a ValueError, every string index is in range (no IndexError), and both loops
       exit within the unwinding bound (no hang) - unwinding and index obligations discharged by the solver;
     * round trip: for templates rendered as str(Ranking) does (brace and bracket notation, optional name prefix and
       surrounding whitespace; shapes up to 3 buckets x 2 elements, element lengths 1-2) with the element characters
       symbolic over the allowed alphabet: the parser does not raise and returns exactly the template's buckets and element
       spans.
     The string model is validated on every run against CPython: the symbolic outcome is evaluated on random concrete
     strings and compared with the real function.
[P]  above the parser: Ranking.from_string(str(r)) == r on concrete instances of every template (int and string names).
Outside the claim: Dataset.write / from_file (file I/O; equality there is C17's string-based __eq__), code points >= 128.
"""
import itertools, random
import z3
from vf import harness, merge, fork
from vf.mstr import MStr, MBag
from vf.harness import STATS

PID = "C18"
DELIMS = "[]{},:"
ALPHABET_OK = lambda c: z3.And(c >= 33, c <= 126, *[c != ord(d) for d in DELIMS])  # noqa


def run_parser(L, chars, length, pre=None):
    from corankco import utils
    I = merge.new_interp(unwind=L + 2)
    I.ctx.bags = True
    if pre is not None:
        I.ctx.pre_solver = harness.solver(60000)
        I.ctx.pre_solver.add(*pre)
    s = MStr(chars, 0, length)
    conv = lambda x: x  # noqa  (the converter wraps the text in an Element; it cannot fail on a str)
    ret = I.call_function(utils.parse_ranking_with_ties, [s, conv])
    STATS.encoded.update(I.ctx.encoded)
    return I, ret


def totality(L):
    out = []
    chars = [z3.Int(f"c{i}") for i in range(L)]
    length = z3.Int("len")
    pre = [z3.And(c >= 0, c < 128) for c in chars] + [length >= 0, length <= L]
    I, ret = run_parser(L, chars, length)
    s = harness.solver(300000)
    s.add(*pre)
    if harness.check(s, "vacuity") != "sat":
        raise harness.HarnessError("vacuous")

    def text_of(mdl):
        n = harness.zval(mdl, length)
        return "".join(chr(harness.zval(mdl, chars[i])) for i in range(n))
    for g, name in I.ctx.raises:
        if name != "ValueError":
            r, mdl = harness.refute(s, "property", merge.to_z3(g) if g is not True else z3.BoolVal(True))
            if r == "sat":
                out.append({"signature": {"site": "parse_ranking_with_ties", "class": "raises-" + name}, "kind": "totality",
                            "what": f"raises {name} (not ValueError)", "text": text_of(mdl)})
            elif r != "unsat":
                raise harness.Inconclusive("raise reachability unknown")
    for txt, r, mdl in merge.discharge_obligations(I, s):
        if mdl is None:
            raise harness.Inconclusive(txt)
        out.append({"signature": {"site": "parse_ranking_with_ties", "class": txt.split(" ")[0]}, "kind": "totality",
                    "what": f"{txt}", "text": text_of(mdl)})
    STATS.states += 1
    STATS.sample({"totality": f"any string of length <= {L} over code points 0..127", "raise sites": len(I.ctx.raises),
                  "obligations": len(I.ctx.obligations)})
    # ---- validation of the string model against CPython on random concrete strings
    from corankco import utils
    rnd = random.Random(L)
    alpha = "[]{},: \tab1"
    raised = z3.Or(*[merge.to_z3(g) if g is not True else z3.BoolVal(True) for g, _ in I.ctx.raises]) if I.ctx.raises else z3.BoolVal(False)
    for _ in range(40):
        n = rnd.randint(0, L)
        txt = "".join(rnd.choice(alpha) for _ in range(n)) if rnd.random() < 0.6 else rnd.choice(["[{a},{b}]", "[[a],[b]]", "[{a, b}]", "[[]]", "[]", "x:[{1}]", "[{a}", "{a}]", "[{a},]", "[{a},{}]"])[:L]
        n = len(txt)
        s.push()
        s.add(length == n, *[chars[i] == ord(txt[i]) for i in range(n)])
        if harness.check(s, "validation") != "sat":
            raise harness.HarnessError("validation query not sat")
        mdl = s.model()
        sym_raise = z3.is_true(mdl.eval(raised, model_completion=True))
        sym_res = None
        if not sym_raise and isinstance(ret, MBag):
            sym_res = []
            for g, bag in ret.items:
                if g is True or z3.is_true(mdl.eval(merge.to_z3(g), model_completion=True)):
                    sym_res.append(sorted(v.value(mdl) for gg, v in bag.items if gg is True or z3.is_true(mdl.eval(merge.to_z3(gg), model_completion=True))))
        s.pop()
        import io, contextlib
        try:
            with contextlib.redirect_stdout(io.StringIO()):
                real = [sorted(str(e) for e in b) for b in utils.parse_ranking_with_ties_of_str(txt)]
            real_raise = False
        except ValueError:
            real, real_raise = None, True
        if real_raise != sym_raise or (not real_raise and real != [sorted(set(b)) for b in (sym_res or [])]):
            raise harness.HarnessError(f"string model disagrees with CPython on {txt!r}: model raise={sym_raise} result={sym_res}, real raise={real_raise} result={real}")
        STATS.validated += 1
    return out


def wrapper_totality(L):
    """Ranking.from_string around the scanner: the scanner is stubbed (its own totality is checked separately) and returns no
    bucket; whatever the wrapper does with the text before / after that call must not raise anything but ValueError"""
    from corankco.ranking import Ranking
    from corankco import utils
    import corankco.ranking as RK
    out = []
    chars = [z3.Int(f"c{i}") for i in range(L)]
    length = z3.Int("len")
    pre = [z3.And(c >= 0, c < 128) for c in chars] + [length >= 0, length <= L]
    I = merge.new_interp(unwind=L + 2)
    I.ctx.bags = False
    I.models[RK.parse_ranking_with_ties_of_str] = lambda I_, s_: []
    I.models[utils.parse_ranking_with_ties_of_str] = lambda I_, s_: []
    fn = Ranking.__dict__["from_string"]
    I.call_function(fn, [Ranking, MStr(chars, 0, length)])
    STATS.encoded.update(I.ctx.encoded)
    s = harness.solver(300000)
    s.add(*pre)

    def text_of(mdl):
        n = harness.zval(mdl, length)
        return "".join(chr(harness.zval(mdl, chars[i])) for i in range(n))
    for g, name in I.ctx.raises:
        if name != "ValueError":
            r, mdl = harness.refute(s, "property", merge.to_z3(g) if g is not True else z3.BoolVal(True))
            if r == "sat":
                out.append({"signature": {"site": "Ranking.from_string", "class": "raises-" + name}, "kind": "wrapper", "what": f"from_string raises {name}", "text": text_of(mdl)})
            elif r != "unsat":
                raise harness.Inconclusive("raise reachability unknown")
    for txt, r, mdl in merge.discharge_obligations(I, s):
        if mdl is None:
            raise harness.Inconclusive(txt)
        out.append({"signature": {"site": "Ranking.from_string", "class": txt.split(" ")[0]}, "kind": "wrapper", "what": "from_string: " + txt, "text": text_of(mdl)})
    STATS.states += 1
    STATS.sample({"from_string wrapper": f"any string of length <= {L}; scanner stubbed", "obligations": len(I.ctx.obligations)})
    return out


SHAPES = [[1], [2], [1, 1], [2, 1], [1, 2], [1, 1, 1], [2, 2], [1, 2, 1]]
DECOR = [("", ""), ("  ", " "), ("r1: ", ""), ("name :", "\n"), (" ", "  \t")]


def render(shape, lens, brace, pre, suf):
    """layout of str(Ranking) with placeholders: list of tokens, each a literal char or ('e', bucket, elem, k)"""
    toks = list(pre) + ["["]
    e = 0
    for i, size in enumerate(shape):
        if i:
            toks += [",", " "]
        toks.append("{" if brace else "[")
        for j in range(size):
            if j:
                toks += [",", " "]
            for k in range(lens[e]):
                toks.append(("e", i, j, k))
            e += 1
        toks.append("}" if brace else "]")
    toks += ["]"] + list(suf)
    return toks


def roundtrip(args):
    shape, lens, brace, (pre, suf) = args
    out = []
    toks = render(shape, lens, brace, pre, suf)
    L = len(toks)
    chars, evars = [], {}
    for t in toks:
        if isinstance(t, str):
            chars.append(z3.IntVal(ord(t)))
        else:
            v = z3.Int("e_%d_%d_%d" % t[1:])
            evars[t[1:]] = v
            chars.append(v)
    pre_c = [ALPHABET_OK(v) for v in evars.values()]
    I, ret = run_parser(L, chars, L, pre_c)
    s = harness.solver(300000)
    s.add(*pre_c)
    if harness.check(s, "vacuity") != "sat":
        raise harness.HarnessError("vacuous")

    def cex(mdl, what):
        txt = "".join(chr(harness.zval(mdl, c)) if not z3.is_int_value(c) else chr(c.as_long()) for c in chars)
        return {"signature": {"site": "parse_ranking_with_ties", "class": what.split(":")[0]}, "kind": "roundtrip", "what": what, "text": txt,
                "expected": [[("".join(chr(harness.zval(mdl, evars[(i, j, k)])) for k in range(lens[sum(shape[:i]) + j]))) for j in range(shape[i])] for i in range(len(shape))]}
    raised = z3.Or(*[merge.to_z3(g) if g is not True else z3.BoolVal(True) for g, _ in I.ctx.raises]) if I.ctx.raises else z3.BoolVal(False)
    r, mdl = harness.refute(s, "property", raised)
    if r == "sat":
        out.append(cex(mdl, "raises: the textual form of a ranking is refused"))
        return out
    if r != "unsat":
        raise harness.Inconclusive("raise query unknown")
    if not isinstance(ret, MBag):
        raise harness.HarnessError("unexpected return value of the parser")
    conj = []
    nb = len(shape)
    for bi, (g, bag) in enumerate(ret.items):
        gz = merge.to_z3(g) if g is not True else z3.BoolVal(True)
        if bi >= nb:
            conj.append(z3.Not(gz))
            continue
        conj.append(gz)
        if not isinstance(bag, MBag):
            raise harness.HarnessError("bucket is not a guarded container")
        for ej, (gg, v) in enumerate(bag.items):
            ggz = merge.to_z3(gg) if gg is not True else z3.BoolVal(True)
            if ej >= shape[bi]:
                conj.append(z3.Implies(gz, z3.Not(ggz)))
                continue
            ln = lens[sum(shape[:bi]) + ej]
            same = [v.length == ln] + [v.char_at(v.start + k) == evars[(bi, ej, k)] for k in range(ln)]
            conj.append(z3.And(ggz, *same))
        if len(bag.items) < shape[bi]:
            conj.append(z3.BoolVal(False))
    if len(ret.items) < nb:
        conj.append(z3.BoolVal(False))
    r, mdl = harness.refute(s, "property", z3.Not(z3.And(*conj)))
    if r == "sat":
        out.append(cex(mdl, "buckets: the parsed buckets / element spans differ from the ranking's"))
    elif r != "unsat":
        raise harness.Inconclusive("round-trip query unknown")
    for txt, rr, mdl2 in merge.discharge_obligations(I, s):
        if mdl2 is None:
            raise harness.Inconclusive(txt)
        out.append(cex(mdl2, "obligation: " + txt))
    STATS.states += 1
    STATS.sample({"template": "".join(t if isinstance(t, str) else "?" for t in toks), "element characters": "symbolic over the allowed alphabet"}, cap=8)
    return out


def concrete_roundtrip(_):
    """[P] above the parser: Ranking.from_string(str(r)) == r"""
    from corankco.ranking import Ranking
    out = []
    pools = [[1, 2, 3, 40, 5, 0], ["a", "b", "cd", "e_f", "G", "x1"], [7, 11, 3, 8, 100, 42]]
    for shape in SHAPES:
        for pool in pools:
            it = iter(pool)
            buckets = [{next(it) for _ in range(size)} for size in shape]
            r = Ranking(buckets)
            for txt in (str(r), str(r).replace("{", "[").replace("}", "]"), "  " + str(r) + " \n", "r1 : " + str(r)):
                try:
                    back = Ranking.from_string(txt)
                    ok = back == r
                except Exception as e:  # noqa
                    ok, back = False, f"{type(e).__name__}: {e}"
                STATS.q["roundtrip-concrete:checked"] += 1
                if not ok:
                    out.append({"signature": {"site": "Ranking.from_string", "class": "concrete"}, "kind": "concrete", "what": f"from_string({txt!r}) = {back}, expected {r}",
                                "text": txt, "buckets": [sorted(b, key=str) for b in buckets]})
    return out


def dispatch(a):
    return {"t": totality, "r": roundtrip, "c": concrete_roundtrip, "w": wrapper_totality}[a[0]](a[1])


def run(run):
    Ls = [3, 5, 7, 9] if not run.thorough else [4, 6, 8, 10, 12]
    jobs = [("t", L) for L in Ls] + [("c", 0), ("w", 4), ("w", 8)]
    rnd = random.Random(run.seed)
    for shape in SHAPES:
        for brace in (True, False):
            n = sum(shape)
            lens_list = [[1] * n, [2] + [1] * (n - 1), [rnd.choice([1, 2, 3]) for _ in range(n)]] + ([[rnd.choice([1, 2, 3]) for _ in range(n)] for _ in range(3)] if run.thorough else [])
            for lens in lens_list:
                for d in DECOR:
                    if len(render(shape, lens, brace, *d)) <= 40:
                        jobs.append(("r", (shape, lens, brace, d)))
    run.bounds = {"totality [S]: strings of length <= L over code points 0..127, L in": Ls,
                  "round trip [S]: templates": sum(1 for j in jobs if j[0] == "r"), "shapes": SHAPES, "element lengths": "1-3 characters",
                  "decorations": DECOR}
    run.assumptions = ["bounded string model (vf/mstr.py): strip / split / replace / find / rfind / slices / endswith / == with CPython semantics for "
                       "code points < 128, validated against CPython on random strings on every run",
                       "the converter (Element(str(x))) cannot fail on a str", "print and message formatting have no effect"]
    run.outside = ["strings longer than the bounds", "code points >= 128 (Unicode whitespace / digits)", "Dataset.write / from_file (file I/O)",
                   "the int-or-string decision above the parser is only exercised on concrete instances"]
    run.rule = "totality: one query per raise site and per obligation; round trip: two queries per template (no raise; buckets and spans equal)"
    run.pmap("string checks", dispatch, jobs)


def replay(p):
    from corankco import utils
    from corankco.ranking import Ranking
    if p["kind"] == "concrete":
        r = Ranking([set(b) for b in p["buckets"]])
        try:
            back = Ranking.from_string(p["text"])
            return not (back == r), f"from_string({p['text']!r}) = {back}"
        except Exception as e:  # noqa
            return True, f"from_string({p['text']!r}) raised {type(e).__name__}: {e}"
    txt = p["text"]
    if p["kind"] == "wrapper":
        try:
            Ranking.from_string(txt)
            return False, f"from_string({txt!r}) returned"
        except ValueError as e:
            return False, f"ValueError: {e}"
        except Exception as e:  # noqa
            return True, f"from_string({txt!r}) raised {type(e).__name__}: {e}"
    import signal

    def on_alarm(*a):
        raise TimeoutError("parser did not return within 5 s")
    signal.signal(signal.SIGALRM, on_alarm)
    signal.alarm(5)
    try:
        res = utils.parse_ranking_with_ties_of_str(txt)
    except ValueError as e:
        signal.alarm(0)
        if p["kind"] == "roundtrip":
            return True, f"{txt!r} refused: {e}"
        return False, f"ValueError: {e}"
    except TimeoutError as e:
        return True, f"{txt!r}: {e}"
    except Exception as e:  # noqa
        signal.alarm(0)
        return True, f"{txt!r} raised {type(e).__name__}: {e}"
    signal.alarm(0)
    if p["kind"] == "roundtrip":
        got = [sorted(str(e) for e in b) for b in res]
        exp = [sorted(b) for b in p["expected"]]
        return got != exp, f"parse({txt!r}) = {got}, expected {exp}"
    return False, f"parsed {res}"
