"""C05 - the exact algorithm returns a global optimum, with or without CPLEX.

The real model-building and decoding code runs; the ILP solver is replaced by a stand-in that records the model and
returns ANY minimiser of the recorded objective over the recorded constraints (each candidate optimum is one path).
[PxS] Engine F over enumerated datasets with the scheme symbolic, configurations: PuLP model, CPLEX model with and
      without its optimisations, the paper variant, the selector with the CPLEX API present / absent: on every path the
      returned ranking r satisfies score(r) <= score(w) for all rankings with ties w (one query).  For the
      non-optimised CPLEX model with all optima requested: returned set = set of minimisers.  CPLEX absent: must answer
      (through PuLP), not fail.
[P]   model level: the recorded constraint rows of both models (n <= 4) admit exactly the characteristic vectors of the
      rankings with ties (all-SAT), and the real decoding maps each back to its ranking.
"""
import itertools
import z3
from vf import harness, sweep, fork, spec, shapes, standins
from vf.harness import STATS

PID = "C05"
CFGS = ["ExactPulp", "ExactCplex(noopt)", "ExactCplex(opt)", "ExactCplexOptim1", "Exact(opt)", "Exact(noopt)",
        "Exact(opt,nocplex)", "Exact(noopt,nocplex)"]


def chk_exact(o, out):
    if o.exc is not None:
        if type(o.exc).__name__ == "IncompatibleArgumentsException" and not o.flag and "opt" in o.cfg and "noopt" not in o.cfg:
            return      # documented: optimised CPLEX model returns a single ranking
        sweep.prove(o, False, f"raised {type(o.exc).__name__}: {o.exc}", "raises", out)
        return
    if o.rankings is None:
        sweep.prove(o, False, "ill-formed consensus " + str(o.malformed), "optimal", out)
        return
    n0 = len(out)
    sweep.chk_optimal(o, out)
    if len(out) > n0:
        return
    if o.cfg == "ExactCplex(noopt)" and not o.flag:
        ret = set(tuple(spec.levels_of(spec.buckets_of(lv), o.n)) for lv in o.rankings)
        s0 = sweep.score_term(o, o.rankings[0])
        conj = []
        for w in sweep.weak_orders_present(o):
            if tuple(spec.levels_of(spec.buckets_of(w), o.n)) not in ret:
                conj.append(sweep.score_term(o, w) > s0)
        if conj:
            sweep.prove(o, z3.And(*conj), "all optimal consensuses requested but an optimal ranking is missing from the returned set",
                        "allopt", out)


def model_level(n):
    """rows of both ILP models == rankings with ties, and decoding inverts the encoding"""
    from corankco.algorithms.exact.exactalgorithmcplex import ExactAlgorithmCplex
    from corankco.algorithms.exact.exactalgorithmpulp import ExactAlgorithmPulp
    import numpy as np
    out = []
    standins.install()
    expected = set(spec.level_vectors(n))
    # --- CPLEX rows
    cost = np.zeros((n, n, 3))
    obj, ub, lb, names = [], [], [], []
    mapping = ExactAlgorithmCplex._add_cplex_variables(obj, ub, lb, names, cost)
    rhs, rown, rows = [], [], []
    ExactAlgorithmCplex._add_binary_constraints(n, rhs, rown, rows)
    nb = len(rows)
    ExactAlgorithmCplex._add_transitivity_constraints(n, rhs, rown, rows)
    cons = []
    for i, ((vs, cs), r) in enumerate(zip(rows, rhs)):
        cons.append(({v: c for v, c in zip(vs, cs)}, "E" if i < nb else "L", r))
    sols = standins.enumerate_feasible(names, cons)
    got = set()
    from corankco.element import Element
    idel = {i: Element(i) for i in range(n)}
    for sol in sols:
        rk = ExactAlgorithmCplex._create_consensus(n, [float(x) for x in sol], mapping, idel)
        lv = shapes.ranking_levels(rk, list(range(n)))
        # the assignment must be the characteristic vector of the decoded ranking
        for k, (t, i, j) in mapping.items():
            val = (lv[i] < lv[j]) if t == "x" else (lv[i] == lv[j])
            if int(val) != sol[k]:
                out.append({"signature": {"site": "cplex model rows", "class": "spurious"}, "kind": "model", "n": n, "which": "cplex",
                            "what": f"CPLEX model (n={n}) admits an assignment that is not a ranking with ties: {dict(zip(names, sol))}"})
                break
        got.add(tuple(lv))
    if got != expected and not out:
        out.append({"signature": {"site": "cplex model rows", "class": "missing"}, "kind": "model", "n": n, "which": "cplex",
                    "what": f"CPLEX model (n={n}) excludes rankings with ties: {sorted(expected - got)[:3]}"})
    # --- PuLP rows
    P = standins.pulp_standin
    my_values, my_vars = [], []
    h = ExactAlgorithmPulp._add_pulp_variables(n, my_values, my_vars, cost)
    prob = P.LpProblem("p", P.LpMinimize)
    ExactAlgorithmPulp._add_binary_constraints(n, prob, my_vars, h)
    ExactAlgorithmPulp._add_transitivity_constraints(n, prob, my_vars, h)
    vnames = sorted(v.name for v in my_vars)
    cons = [({v.name: k for v, k in c.expr.terms.items() if k != 0}, c.sense, -c.expr.const) for c in prob.constraints]
    sols = standins.enumerate_feasible(vnames, cons)
    got = set()
    for sol in sols:
        val = dict(zip(vnames, sol))
        # decode as the real code does: x_i_j = 1 counts a defeat of j
        defeats = {i: sum(val[f"x_{j}_{i}"] for j in range(n) if j != i) for i in range(n)}
        lv = spec.levels_of([tuple(i for i in range(n) if defeats[i] == d) for d in sorted(set(defeats.values()))], n)
        ok = all(val[f"x_{i}_{j}"] == int(lv[i] < lv[j]) for i in range(n) for j in range(n) if i != j) and \
            all(val[f"t_{i}_{j}"] == int(lv[i] == lv[j]) for i in range(n) for j in range(i + 1, n))
        if not ok:
            out.append({"signature": {"site": "pulp model rows", "class": "spurious"}, "kind": "model", "n": n, "which": "pulp",
                        "what": f"PuLP model (n={n}) admits an assignment that is not a ranking with ties: {val}"})
            break
        got.add(tuple(lv))
    if got != expected and not [o for o in out if o["which"] == "pulp"]:
        out.append({"signature": {"site": "pulp model rows", "class": "missing"}, "kind": "model", "n": n, "which": "pulp",
                    "what": f"PuLP model (n={n}) excludes rankings with ties: {sorted(expected - got)[:3]}"})
    STATS.states += len(expected)
    STATS.sample({"model-level": f"n={n}", "rankings with ties": len(expected), "both models": True})
    return out


def sym_exact(args):
    """[S over datasets AND schemes]: the position-only exact models on a SymDataset; the optimum returned by the stand-in is a
    forked choice; score(r) <= score(w) for all rankings with ties w is proved per path"""
    cfg, n, m, flag = args
    from vf import symds
    sweep.install()
    symds.install_kernel_dispatcher()
    out = []
    ds = symds.SymDataset(n, m)
    B, T = fork.scheme_vars()
    sc = fork.make_scheme(B, T)
    ws = spec.level_vectors(n)
    wt = {w: ds.score_term(w, B, T) for w in ws}
    ex = fork.Explorer(fork.valid_scheme(B, T) + ds.constraints(), max_paths=int(2e5), timeout_ms=300000)

    def pay(ctx, mdl, what, cls):
        return {"signature": {"site": cfg + "(symbolic dataset)", "class": cls}, "what": f"{cfg}: {what}", "check": cls, "config": cfg, "flag": flag,
                "rankings": shapes.raw_json(ds.levels_from(mdl), ds.names), "scheme": fork.scheme_values(mdl, B, T),
                "choices": [c for c in ctx.choices if c[0] in ("pulp-optimum", "cplex-optimum", "pool-anchor")]}

    def path(ctx):
        try:
            alg, _ = sweep.make_config(cfg, [])
            cons = alg.compute_consensus_rankings(ds, sc, flag)
            lvs = [shapes.ranking_levels(r, ds.names) for r in cons.consensus_rankings]
        except harness.HarnessError:
            raise
        except harness.Inconclusive:
            raise
        except Exception as e:  # noqa
            ctx._ensure_model()
            out.append(pay(ctx, ctx.model, f"raised {type(e).__name__}: {e}", "raises"))
            return
        for lv in lvs:
            if any(v == -1 for v in lv):
                ctx._ensure_model()
                out.append(pay(ctx, ctx.model, "element missing from the consensus", "optimal"))
                return
            st = wt[tuple(spec.levels_of(spec.buckets_of(lv), n))]
            mdl = ctx.prove(z3.And(*[st <= t for t in wt.values()]))
            if mdl is not None:
                out.append(pay(ctx, mdl, f"returned ranking {spec.buckets_of(lv)} is not a global optimum", "optimal"))
                return
        if not flag and cfg == "ExactCplex(noopt)":
            ret = {tuple(spec.levels_of(spec.buckets_of(lv), n)) for lv in lvs}
            s0 = wt[next(iter(ret))]
            miss = [wt[w] > s0 for w in ws if w not in ret]
            if miss:
                mdl = ctx.prove(z3.And(*miss))
                if mdl is not None:
                    out.append(pay(ctx, mdl, "all optimal consensuses requested but an optimal ranking is missing", "allopt"))
    ex.explore(path)
    STATS.sample({"symbolic dataset": f"all datasets with n={n}, m={m}", "config": cfg, "scheme": "12 symbolic reals", "paths": STATS.paths})
    return out


def run(run):
    sweep.install()
    if run.thorough:
        light = {(1, 1): None, (1, 2): None, (2, 1): None, (2, 2): None, (3, 1): None, (3, 2): None, (4, 1): 30, (4, 2): 10}
        ml = [1, 2, 3, 4]
    else:
        light = {(1, 1): None, (1, 2): None, (2, 1): None, (2, 2): None, (3, 1): None, (3, 2): 70, (4, 1): 3}
        ml = [1, 2, 3, 4]
    run.assumptions = ["ILP solver replaced by a stand-in returning ANY optimal solution of the recorded model (the pool = all minimisers); "
                       "'CPLEX present' means the CPLEX classes driven through the stand-in (CPLEX is not installed)",
                       "dataset shapes enumerated, scheme symbolic on every path", "float64 modelled as exact reals",
                       "real igraph on the concrete graph of each path"]
    run.outside = ["n > 4", "m > 2", "solver tolerances (mipgap), time limits"]
    run.rule = "one item per (configuration, dataset, flag); on every path (arcs of the graph of elements x optimum picked) one optimality query against all rankings with ties"
    run.bounds["model level [P] n"] = ml
    run.pmap("model_level", model_level, ml)
    items = sweep.make_items(run, CFGS, [chk_exact, "wellformed"], flags=(True, False), light=light, heavy=light,
                             strata=["cycles3"])
    items += sweep.history_items(run, CFGS, [chk_exact, "wellformed"], 4 if run.thorough else 2)
    run.pmap("sweep", sweep.run_item, sweep.order_items(items), chunksize=1)
    symb = [("ExactCplex(noopt)", 2, 2, True), ("ExactCplex(noopt)", 3, 1, True), ("ExactCplex(noopt)", 3, 2, True), ("ExactCplex(noopt)", 2, 2, False),
            ("ExactPulp", 2, 2, True), ("ExactPulp", 3, 1, True)]
    if run.thorough:
        symb += [("ExactCplex(noopt)", 2, 3, True), ("ExactCplex(noopt)", 3, 1, False), ("ExactPulp", 3, 2, True), ("ExactCplexOptim1", 3, 2, True)]
    run.bounds["exact models on symbolic datasets [S over datasets and schemes] (config, n, m, at most one)"] = symb
    run.pmap("sym_exact", sym_exact, symb)
    run.part("validate_engine_f", lambda: sweep.validate_engine_f(run, 40 if run.thorough else 14))
    run.extra["work_items"] = len(items)
    run.extra["stubs"] = sweep.install()


def replay(p):
    if p.get("kind") == "model":
        res = model_level(p["n"])
        bad = [r for r in res if r["which"] == p["which"]]
        return bool(bad), bad[0]["what"] if bad else "rows = rankings with ties"
    if p["check"] == "allopt":
        ds, sc, alg, cons, exc, log = sweep.concrete_run(p)
        if exc is not None:
            return False, f"raised {exc}"
        names, lvs = sweep.concrete_levels(p)
        best = sweep.all_weak_orders_scores(names, lvs, sc)[0]
        ret = {shapes.ranking_levels(r, names) for r in cons.consensus_rankings}
        ret = {tuple(spec.levels_of(spec.buckets_of(lv), len(names))) for lv in ret}
        for part in spec.ordered_partitions(range(len(names))):
            w = spec.levels_of(part, len(names))
            clv = {names[i]: w[i] for i in range(len(names))}
            s = spec.score_c(clv, lvs, sc.b_vector, sc.t_vector, elems=names)
            if abs(s - best) < 1e-9 and tuple(w) not in ret:
                return True, f"optimal ranking {part} (score {s}) missing from the returned set {cons}"
        return False, "returned set = minimisers"
    return sweep.replay(p)
