"""C13 - Copeland ranks by pairwise victories and reports consistent features.

[S]   Engine M on the real source of CopelandMethod._fill_dicts_copeland: any mirror-consistent real cost table (n<=4,
      thorough 5): scores and victory/equality/defeat counts equal the definition, counts sum to n-1 per element,
      scores sum to n(n-1)/2.
[PxS] Engine F on CopelandMethod.compute_consensus_rankings over enumerated real datasets, scheme symbolic: on every
      path (the sort order of the scores is decided by forks) the ranking lists the elements by decreasing definition
      score, tied exactly on equal scores, and both feature dictionaries hold the definition's numbers for the right elements.
"""
import itertools
import z3
from vf import harness, merge, sweep, fork, spec, shapes
from vf.harness import STATS
from vf.checks import bio_kernels as bk

PID = "C13"
HALF = z3.RealVal("1/2")


def kernel(n):
    from corankco.algorithms.copeland.copeland import CopelandMethod
    out = []
    I = merge.new_interp()
    cost, flat, cpre = bk.sym_cost(n)
    tab = merge.const_array(I, (n, n, 3), flat)
    fn = CopelandMethod.__dict__["_fill_dicts_copeland"]
    res = I.call_function(fn, [tab])
    STATS.encoded.update(I.ctx.encoded)
    if not (isinstance(res, tuple) and len(res) == 2):
        raise harness.HarnessError("unexpected return shape")
    scores, results = res
    s = harness.solver()
    s.add(*cpre)

    def S(x):
        return sum([z3.If(cost[x][y][0] < cost[x][y][1], z3.RealVal(1), z3.If(cost[x][y][0] == cost[x][y][1], HALF, z3.RealVal(0)))
                    for y in range(n) if y != x], z3.RealVal(0))

    def cnt(x, k):
        c = {0: lambda y: cost[x][y][0] < cost[x][y][1], 1: lambda y: cost[x][y][0] == cost[x][y][1], 2: lambda y: cost[x][y][0] > cost[x][y][1]}[k]
        return sum([z3.If(c(y), 1, 0) for y in range(n) if y != x], z3.IntVal(0))

    def ask(name, f):
        r, mdl = harness.refute(s, "property", z3.Not(f))
        if r == "sat":
            out.append({"signature": {"site": "_fill_dicts_copeland", "class": name.split(":")[0]}, "what": name, "n": n, "kind": "kernel",
                        "cost": [harness.zval(mdl, v) for v in flat]})
        elif r != "unsat":
            raise harness.Inconclusive(name)
    tr = lambda v: z3.ToReal(v) if z3.is_int(v) else v  # noqa
    sc = [tr(merge.to_z3(merge.cell(I, scores, (x,)))) for x in range(n)]
    rs = [[tr(merge.to_z3(merge.cell(I, results, (x, k)))) for k in range(3)] for x in range(n)]
    for x in range(n):
        ask(f"score: score of element {x} differs from the definition", sc[x] == S(x))
        for k in range(3):
            ask(f"count: count {k} of element {x} differs from the definition", rs[x][k] == z3.ToReal(cnt(x, k)))
        ask(f"rowsum: counts of element {x} do not sum to n-1", rs[x][0] + rs[x][1] + rs[x][2] == n - 1)
    ask("total: scores do not sum to n(n-1)/2", sum(sc, z3.RealVal(0)) == z3.RealVal(n * (n - 1)) / 2)
    for txt, r, mdl in merge.discharge_obligations(I, s):
        out.append({"signature": {"site": "_fill_dicts_copeland", "class": "obligation"}, "what": txt, "n": n, "kind": "kernel",
                    "cost": [harness.zval(mdl, v) for v in flat] if mdl is not None else None})
    STATS.states += 1
    STATS.sample({"kernel": "_fill_dicts_copeland", "n": n, "input": "any mirror-consistent real table"})
    return out


def copeland_terms(o):
    """definition: per present element (score term, [victories, equalities, defeats] terms)"""
    tab = spec.cost_table_c(o.lvs, o.n, o.B, o.T)
    S, C = {}, {}
    for x in o.present:
        sc = z3.RealVal(0)
        v = [z3.IntVal(0)] * 3
        for y in o.present:
            if y == x:
                continue
            bf, af = fork.term(tab[x][y][0]), fork.term(tab[x][y][1])
            sc = sc + z3.If(bf < af, z3.RealVal(1), z3.If(bf == af, HALF, z3.RealVal(0)))
            v = [v[0] + z3.If(bf < af, 1, 0), v[1] + z3.If(bf == af, 1, 0), v[2] + z3.If(bf > af, 1, 0)]
        S[x], C[x] = sc, v
    return S, C


def chk_copeland(o, out):
    if not sweep.chk_accepts(o, out) or o.rankings is None:
        if o.malformed:
            sweep.prove(o, False, "ill-formed consensus " + o.malformed, "order", out)
        return
    from corankco.element import Element
    lv = o.rankings[0]
    S, C = copeland_terms(o)
    conj = []
    for x, y in itertools.combinations(o.present, 2):
        if lv[x] == -1 or lv[y] == -1:
            sweep.prove(o, False, "element missing from the consensus", "order", out)
            return
        conj.append(S[x] > S[y] if lv[x] < lv[y] else S[x] < S[y] if lv[x] > lv[y] else S[x] == S[y])
    if conj and not sweep.prove(o, z3.And(*conj), f"ranking {spec.buckets_of(lv)} is not 'decreasing Copeland score, tied iff equal'", "order", out):
        return
    try:
        fs, fv = o.cons.copeland_scores, o.cons.copeland_victories
    except Exception as e:  # noqa
        sweep.prove(o, False, f"features missing: {type(e).__name__}", "features", out)
        return
    keys = {Element(o.names[x]): x for x in o.present}
    if set(fs.keys()) != set(keys) or set(fv.keys()) != set(keys):
        sweep.prove(o, False, "feature dictionaries are not keyed by exactly the universe", "features", out)
        return
    conj = []
    for el, x in keys.items():
        conj.append(fork.term(fs[el]) == S[x])
        vs = list(fv[el])
        if len(vs) != 3:
            sweep.prove(o, False, "victory record is not a triple", "features", out)
            return
        conj += [fork.term(vs[k]) == z3.ToReal(C[x][k]) for k in range(3)]
    sweep.prove(o, z3.And(*conj), "reported Copeland scores / victory-equality-defeat counts differ from the definition", "features", out)


def sym_copeland(args):
    """[S over datasets AND schemes]: CopelandMethod on a SymDataset"""
    n, m = args
    from vf import symds
    from corankco.algorithms.copeland.copeland import CopelandMethod
    from corankco.element import Element
    sweep.install()
    symds.install_kernel_dispatcher()
    out = []
    ds = symds.SymDataset(n, m)
    B, T = fork.scheme_vars()
    sc = fork.make_scheme(B, T)
    tab = ds.cost_table(B, T)
    S, C = {}, {}
    for x in range(n):
        s_, v = z3.RealVal(0), [z3.IntVal(0)] * 3
        for y in range(n):
            if y != x:
                bf, af = tab[x][y][0], tab[x][y][1]
                s_ = s_ + z3.If(bf < af, z3.RealVal(1), z3.If(bf == af, HALF, z3.RealVal(0)))
                v = [v[0] + z3.If(bf < af, 1, 0), v[1] + z3.If(bf == af, 1, 0), v[2] + z3.If(bf > af, 1, 0)]
        S[x], C[x] = s_, v
    ex = fork.Explorer(fork.valid_scheme(B, T) + ds.constraints(), max_paths=int(1e5), timeout_ms=300000)

    def pay(mdl, what, cls):
        return {"signature": {"site": "CopelandMethod(symbolic dataset)", "class": cls}, "what": what, "check": cls, "config": "Copeland", "flag": True,
                "rankings": shapes.raw_json(ds.levels_from(mdl), ds.names), "scheme": fork.scheme_values(mdl, B, T), "choices": []}

    def path(ctx):
        try:
            cons = CopelandMethod().compute_consensus_rankings(ds, sc, True)
            lv = shapes.ranking_levels(cons.consensus_rankings[0], ds.names)
        except harness.HarnessError:
            raise
        except Exception as e:  # noqa
            ctx._ensure_model()
            out.append(pay(ctx.model, f"raised {type(e).__name__}: {e}", "raises"))
            return
        if any(v == -1 for v in lv):
            ctx._ensure_model()
            out.append(pay(ctx.model, "element missing from the consensus", "order"))
            return
        conj = [S[x] > S[y] if lv[x] < lv[y] else S[x] < S[y] if lv[x] > lv[y] else S[x] == S[y] for x, y in itertools.combinations(range(n), 2)]
        fs, fv = cons.copeland_scores, cons.copeland_victories
        want = {Element(ds.names[x]) for x in range(n)}
        if set(fs.keys()) != want or set(fv.keys()) != want:
            ctx._ensure_model()
            out.append(pay(ctx.model, "feature dictionaries are not keyed by exactly the universe", "features"))
            return
        for x in range(n):
            el = Element(ds.names[x])
            conj.append(fork.term(fs[el]) == S[x])
            conj += [fork.term(list(fv[el])[k]) == z3.ToReal(C[x][k]) for k in range(3)]
        mdl = ctx.prove(z3.And(*conj))
        if mdl is not None:
            out.append(pay(mdl, f"Copeland ranking {spec.buckets_of(lv)} / features differ from the definition", "order"))
    ex.explore(path)
    STATS.sample({"symbolic dataset": f"all datasets with n={n}, m={m}", "scheme": "12 symbolic reals", "paths": STATS.paths})
    return out


def run(run):
    sweep.install()
    if run.thorough:
        kn = [1, 2, 3, 4, 5]
        light = {(1, 1): None, (1, 2): None, (2, 1): None, (2, 2): None, (3, 1): None, (3, 2): None, (4, 1): None, (4, 2): 300}
    else:
        kn = [1, 2, 3, 4]
        light = {(1, 1): None, (1, 2): None, (2, 1): None, (2, 2): None, (3, 1): None, (3, 2): 150, (4, 1): 20, (4, 2): 20}
    run.assumptions = ["kernel: any mirror-consistent real table (mirror consistency is C02's guarantee)", "float64 modelled as exact reals "
                       "(equal-cost tests are exact over the reals)", "end to end: shapes enumerated, scheme symbolic"]
    run.outside = ["n > 5 (kernel), n > 4 (end to end)", "float rounding in exact-equality tests"]
    run.rule = "kernel: one query per post-condition; end to end: per path one order query and one feature query"
    run.bounds["kernel [S] n"] = kn
    run.pmap("kernel", kernel, kn)
    items = sweep.make_items(run, ["Copeland"], [chk_copeland, "wellformed"], flags=(True, False), light=light, heavy=light)
    run.pmap("two_calls", sweep.two_calls_item, sweep.two_calls_items(run, ["Copeland"], [chk_copeland], 12 if run.thorough else 5), chunksize=1)
    run.pmap("sweep.run_item", sweep.run_item, items, chunksize=4)
    symb = [(2, 2), (3, 1), (3, 2), (2, 3)] + ([(4, 1), (2, 4)] if run.thorough else [])
    run.bounds["Copeland on symbolic datasets [S over datasets and schemes] (n, m)"] = symb
    run.pmap("sym_copeland", sym_copeland, symb)
    run.extra["work_items"] = len(items)


def oracle(names, lvs, sc):
    tab = {}
    S, C = {}, {}
    for x in names:
        s, v = 0.0, [0, 0, 0]
        for y in names:
            if x == y:
                continue
            bf = sum(sc.b_vector[spec.status_c(r.get(x, -1), r.get(y, -1))] for r in lvs)
            af = sum(sc.b_vector[spec.status_c(r.get(y, -1), r.get(x, -1))] for r in lvs)
            if bf < af:
                s += 1; v[0] += 1
            elif bf == af:
                s += 0.5; v[1] += 1
            else:
                v[2] += 1
        S[x], C[x] = s, v
    return S, C


def replay(p):
    if p.get("kind") == "kernel":
        import numpy as np
        from corankco.algorithms.copeland.copeland import CopelandMethod
        n = p["n"]
        tab = np.array([float(x) for x in p["cost"]]).reshape(n, n, 3)
        sc, rs = CopelandMethod._fill_dicts_copeland(tab)
        for x in range(n):
            e = [sum(1 for y in range(n) if y != x and tab[x][y][0] < tab[x][y][1]), sum(1 for y in range(n) if y != x and tab[x][y][0] == tab[x][y][1]),
                 sum(1 for y in range(n) if y != x and tab[x][y][0] > tab[x][y][1])]
            if list(rs[x]) != e or abs(sc[x] - (e[0] + 0.5 * e[1])) > 1e-9:
                return True, f"element {x}: reported score {sc[x]} counts {list(rs[x])}, definition {e[0] + 0.5 * e[1]} {e}"
        return False, "kernel agrees with the definition"
    if "two_calls" in p:
        def judge(cons, exc, rj, sc_):
            if exc is not None:
                return True, f"raised {type(exc).__name__}: {exc}"
            nm, lv_ = sweep.concrete_levels({"rankings": rj})
            return concrete_check(cons, nm, lv_, sc_)
        return sweep.replay_two_calls(p, judge)
    ds, sc, alg, cons, exc, log = sweep.concrete_run(p)
    if exc is not None:
        return p["check"] == "raises", f"raised {type(exc).__name__}: {exc}"
    names, lvs = sweep.concrete_levels(p)
    return concrete_check(cons, names, lvs, sc)


def concrete_check(cons, names, lvs, sc):
    from corankco.element import Element
    S, C = oracle(names, lvs, sc)
    lv = {}
    for i, b in enumerate(cons.consensus_rankings[0]):
        for el in b:
            lv[el.value] = i
    for x, y in itertools.combinations(names, 2):
        ok = (S[x] > S[y]) if lv[x] < lv[y] else (S[x] < S[y]) if lv[x] > lv[y] else S[x] == S[y]
        if not ok:
            return True, f"{cons} but Copeland scores {S}"
    if set(cons.copeland_scores.keys()) != {Element(x) for x in names} or set(cons.copeland_victories.keys()) != {Element(x) for x in names}:
        return True, f"feature dictionaries keyed by {sorted(str(e) for e in cons.copeland_scores)} / {sorted(str(e) for e in cons.copeland_victories)}, universe {names}"
    for x in names:
        if abs(cons.copeland_scores[Element(x)] - S[x]) > 1e-9 or list(cons.copeland_victories[Element(x)]) != C[x]:
            return True, f"features of {x}: {cons.copeland_scores[Element(x)]} {list(cons.copeland_victories[Element(x)])}, definition {S[x]} {C[x]}"
    return False, "consistent"
