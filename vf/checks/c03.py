"""C03 - every algorithm returns a well-formed consensus over exactly the universe.

[PxS] fork-mode sweep of all configurations over enumerated datasets with the scheme symbolic: on every feasible path
      (including every KwikSort pivot sequence and every optimum the ILP stand-in may return) the consensus has >= 1
      ranking (exactly 1 when at most one is requested), non-empty disjoint buckets, union = universe, Element types
      preserved.  Documented refusals (scheme not handled, incompatible arguments) count as "not accepted".
[S]   Engine M: _change_bucket / _add_bucket keep the bucket-id vector dense and realise exactly the intended move
      from any dense vector, any element, any admissible target (what makes the id->element decoding safe).
"""
from vf import harness, sweep, fork
from vf.checks import bio_kernels as bk

PID = "C03"
REFUSALS = ("ScoringSchemeNotHandledException", "InompleteRankingsIncompatibleWithScoringSchemeException",
            "IncompatibleArgumentsException")


def chk_no_crash(o, out):
    if o.exc is not None and type(o.exc).__name__ not in REFUSALS:
        sweep.prove(o, False, f"raised {type(o.exc).__name__}: {o.exc}", "raises", out)


def run(run):
    sweep.install()
    cfgs = list(sweep.ALL_CONFIGS)
    if run.thorough:
        light = {(1, 1): None, (1, 2): None, (2, 1): None, (2, 2): None, (3, 1): None, (3, 2): 250, (4, 1): 20, (4, 2): 8}
        heavy = {(1, 1): None, (2, 1): None, (2, 2): None, (3, 1): None, (3, 2): 60, (4, 1): 4}
        kn = [(n, e) for n in (1, 2, 3, 4, 5) for e in range(n)]
    else:
        light = {(1, 1): None, (1, 2): None, (2, 1): None, (2, 2): None, (3, 1): None, (3, 2): 40, (4, 1): 4}
        heavy = {(1, 1): None, (2, 1): None, (2, 2): 10, (3, 1): 6, (3, 2): 8}
        kn = [(n, e) for n in (1, 2, 3, 4) for e in range(n)]
    run.assumptions = ["dataset shapes enumerated (declared enumeration); scheme symbolic on every path",
                       "ILP solvers replaced by stand-ins returning any optimal solution of the recorded model",
                       "random pivot = arbitrary element", "float64 modelled as exact reals"]
    run.outside = ["n > 4", "m > 2 (m = 3 only in other checks)", "element names beyond small ints / one-letter strings"]
    run.rule = "one item per (configuration, dataset shape, flag); every feasible path checked structurally"
    run.bounds["kernel moves [S] (n, element)"] = kn
    run.pmap("bk.move_check", bk.move_check, kn)
    items = sweep.make_items(run, cfgs, ["wellformed"], light=light, heavy=heavy,
                             strata=({"*": ["cycles3", "comp3plus1"], "ParCons": ["cycles3", "comp3plus1", "two_cycles6"], "ParCons(nocplex)": ["cycles3", "comp3plus1", ("two_cycles6", 2)],
                                      "ParCons(1,Copeland)": ["cycles3", "comp3plus1", "two_cycles6"]} if run.thorough else
                                     {"ParCons(1,Copeland)": [("comp3plus1", 6), ("two_cycles6", 2)], "ParCons": [("cycles3", 3), ("two_cycles6", 2)],
                                      "ParCons(nocplex)": [("two_cycles6", 1)],
                                      "ExactPulp": [("cycles3", 3)], "ExactCplex(noopt)": [("cycles3", 3)]}),
                             strata_heavy=({"ParCons(1,BioConsert)": [("comp3plus1", 4)]} if run.thorough else {}))
    items += sweep.history_items(run, [c for c in cfgs if c not in sweep.HEAVY or run.thorough], ["wellformed"], 4 if run.thorough else 2)
    run.pmap("sweep.run_item", sweep.run_item, sweep.order_items(items), chunksize=1)
    tc = sweep.two_calls_items(run, cfgs, ["wellformed"], 3 if run.thorough else 1)
    run.pmap("two_calls", sweep.two_calls_item, tc, chunksize=1)
    run.part("validate_engine_f", lambda: sweep.validate_engine_f(run, 40 if run.thorough else 14))

    def judge(job, o, base):
        # C03 on the compiled build: no failure other than a documented refusal, and a well-formed consensus
        if o["exc"] is not None and o["exc"][0] not in sweep.REFUSALS:
            return dict(base, what=f"{job['config']}: raised {o['exc'][0]}: {o['exc'][1]} (compiled kernels, scheme written as {job['writing']})", check="raises")
        if o["exc"] is None and sweep.jit_illformed(job, o):
            return dict(base, what=f"{job['config']}: ill-formed consensus {o['consensus']} (compiled kernels)", check="wf")
        return None
    jw = {k: sweep.WRITINGS[k] for k in ("ints (custom)", "floats (pseudo-distance)", "ints and floats mixed")}
    run.part("jit-conformance", lambda: sweep.jit_conformance(run, cfgs + ["BioConsert[Borda,Copeland]", "BioConsert[PickAPerm,Borda]", "BioConsert[BioCo]"], judge, writings=jw))
    run.extra["work_items"] = len(items)
    run.extra["stubs"] = sweep.install()


def replay(p):
    if "two_calls" in p:
        return sweep.replay_two_calls(p, sweep.judge_wellformed)
    if p["signature"]["site"] in ("_change_bucket", "_add_bucket"):
        return bk.replay_kernel(p)
    return sweep.replay(p)
