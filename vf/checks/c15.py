"""C15 - computing a consensus never modifies its inputs; results are repeatable.

Engine F monitor [P, scheme symbolic]: for enumerated datasets and sequences of two operations (any algorithm
configuration, partitions; each followed by reading the consensus score and description) executed on SHARED Dataset and
ScoringScheme objects: a canonical snapshot of the dataset's public state and of the scheme's penalty terms is taken
before the sequence and compared after every operation; every operation is then re-executed on FRESH copies (with the
nondeterministic choices of the shared run pinned) and must give the same consensus; deterministic algorithms called twice
on the same inputs return the same consensus.  The solver only decides path feasibility and score-term equalities.
"""
import itertools, random
import z3
from vf import harness, sweep, fork, spec, shapes
from vf.harness import STATS

PID = "C15"
OPS = ["Copeland", "Borda", "Borda(bucket_id)", "BioConsert", "BioCo", "BioConsert[Copeland]", "KwikSortRandom", "PickAPerm", "ExactPulp",
       "ParCons", "ParCons(1,Copeland)", "parcons_partition", "parfront_partition"]
NONDET = {"KwikSortRandom"}
# user-side scoring of a candidate: Consensus(rankings, dataset, scheme) built WITHOUT a feature dictionary, score read lazily
SCORE_OPS = {"score(tied)": lambda n: [list(range(n))], "score(order)": lambda n: [[e] for e in range(n)],
             "score(reverse)": lambda n: [[e] for e in reversed(range(n))], "score(first|rest)": lambda n: [[0]] + ([list(range(1, n))] if n > 1 else [])}


def snapshot(ds, sc):
    key = lambda e: (e.type.__name__, e.value)  # noqa
    rk = []
    for r in ds.rankings:
        rk.append(([sorted(key(e) for e in b) for b in r.buckets], sorted((key(e), p) for e, p in r.positions.items()), sorted(key(e) for e in r.domain), len(r)))
    return {"rankings": rk, "e2i": sorted((key(e), i) for e, i in ds.mapping_elem_id.items()), "i2e": sorted((i, key(e)) for i, e in ds.mapping_id_elem.items()),
            "flags": (ds.is_complete, ds.without_ties, ds.name, ds.nb_elements, ds.nb_rankings), "universe": sorted(key(e) for e in ds.universe),
            "positions": ds.get_positions().tolist(), "bucket_ids": ds.get_bucket_ids().tolist(),
            "scheme": [fork.lift(x).sexpr() for x in sc.b_vector + sc.t_vector]}


def diff(a, b):
    return [k for k in a if a[k] != b[k]]


def do_op(op, ds, sc, names, flag):
    """returns (canonical result, score term or None)"""
    from corankco.partitioning.ordered_partition import OrderedPartition
    if op in ("parcons_partition", "parfront_partition"):
        part = getattr(OrderedPartition, op)(ds, sc)
        return ("partition", [sorted((e.type.__name__, e.value) for e in g) for g in part]), None
    if op in SCORE_OPS:
        from corankco.consensus import Consensus
        from corankco.ranking import Ranking
        from corankco.element import Element
        part = SCORE_OPS[op](len(names))
        by_name = {str(e): e for e in ds.universe}
        cons = Consensus([Ranking([{by_name[str(names[e])] for e in b} for b in part])], ds, sc)
        score = cons.kemeny_score
        cons.description()
        return ("score-op", {e: i for i, b in enumerate(part) for e in b}), (score, cons.kemeny_score)
    alg, _ = sweep.make_config(op, [])
    try:
        cons = alg.compute_consensus_rankings(ds, sc, flag)
    except Exception as e:  # noqa
        if type(e).__name__ in sweep.REFUSALS:
            return ("refused", type(e).__name__), None
        raise
    score = cons.kemeny_score
    cons.description()
    score2 = cons.kemeny_score
    res = [[sorted((e.type.__name__, e.value) for e in b) for b in r] for r in cons.consensus_rankings]
    return ("consensus", res), (score, score2)


def item(args):
    lvs, names, ops, flag = args
    sweep.install()
    out = []
    B, T = fork.scheme_vars()
    ex = fork.Explorer(fork.valid_scheme(B, T), max_paths=int(2e5))

    def payload(ctx, what, cls, mdl=None):
        if mdl is None:
            ctx._ensure_model()
            mdl = ctx.model
        return {"signature": {"site": "+".join(ops), "class": cls}, "what": what, "rankings": shapes.raw_json(lvs, names), "ops": list(ops), "flag": flag,
                "scheme": fork.scheme_values(mdl, B, T), "check": cls, "names": list(names),
                "choices": [c for c in ctx.choices if c[0] in ("pivot", "pulp-optimum", "cplex-optimum", "pool-anchor")]}

    def path(ctx):
        ds = shapes.build(lvs, names)
        ds.name = "shared"
        sc = fork.make_scheme(B, T)
        s0 = snapshot(ds, sc)
        for k, op in enumerate(ops):
            n0 = len(ctx.choices)
            try:
                res, score = do_op(op, ds, sc, names, flag)
            except harness.HarnessError:
                raise
            except harness.Inconclusive:
                raise
            except Exception as e:  # noqa
                out.append(payload(ctx, f"operation {k} ({op}) on shared objects raised {type(e).__name__}: {e}", "raises"))
                return
            mine = list(ctx.choices[n0:])
            d = diff(s0, snapshot(ds, sc))
            if d:
                out.append(payload(ctx, f"{op} modified its inputs: {d} changed", "modified"))
                return
            if score is not None and score[0] is not None and score[1] is not None:
                mdl = ctx.prove(fork.term(score[0]) == fork.term(score[1]))
                if mdl is not None:
                    out.append(payload(ctx, f"{op}: score changed after description()", "score-changed", mdl))
                    return
            if res[0] == "score-op":
                # a candidate scored after other calls must get the score it gets in a fresh process: the definition
                exp = spec.score_c(res[1], [list(lv) for lv in lvs], B, T, elems=list(range(len(names))))
                mdl = ctx.prove(fork.term(score[0]) == fork.term(exp))
                if mdl is not None:
                    out.append(payload(ctx, f"{op} after {list(ops[:k])}: score of a user-built Consensus differs from its score in a fresh state", "score-history", mdl))
                    return
            # same operation on fresh copies, nondeterministic choices pinned to those of the shared run
            ds2 = shapes.build(lvs, names)
            ds2.name = "shared"
            sc2 = fork.make_scheme(B, T)
            ctx.pinned = list(mine)
            try:
                res2, score2 = do_op(op, ds2, sc2, names, flag)
            except Exception as e:  # noqa
                out.append(payload(ctx, f"{op} on fresh copies raised {type(e).__name__}: {e}", "fresh-raises"))
                return
            finally:
                ctx.pinned = []
            if res != res2:
                out.append(payload(ctx, f"operation {k} ({op}) after {list(ops[:k])} on shared objects gives {res[1]}, on fresh copies {res2[1]}", "shared-vs-fresh"))
                return
            if score is not None and score2 is not None and score[0] is not None and score2[0] is not None:
                mdl = ctx.prove(fork.term(score[0]) == fork.term(score2[0]))
                if mdl is not None:
                    out.append(payload(ctx, f"{op}: score on shared objects differs from score on fresh copies", "shared-vs-fresh", mdl))
                    return
            if op not in NONDET and k == len(ops) - 1:
                ctx.pinned = list(mine)
                try:
                    res3, _ = do_op(op, ds, sc, names, flag)
                finally:
                    ctx.pinned = []
                if res3 != res:
                    out.append(payload(ctx, f"{op} called twice on the same inputs: {res[1]} then {res3[1]}", "repeat"))
                    return
                d = diff(s0, snapshot(ds, sc))
                if d:
                    out.append(payload(ctx, f"{op} (second call) modified its inputs: {d} changed", "modified"))
                    return
    ex.explore(path)
    STATS.sample({"dataset": shapes.raw_json(lvs, names), "operations on shared objects": list(ops), "scheme": "12 symbolic reals"}, cap=8)
    return out


def run(run):
    sweep.install()
    rnd = random.Random(run.seed)
    heavy = {"BioConsert", "BioCo", "BioConsert[Copeland]"}
    if run.thorough:
        nseq, plan = 260, {(2, 2): 12, (3, 1): 8, (3, 2): 60, (3, 3): 10}
    else:
        nseq, plan = 40, {(2, 2): 5, (3, 1): 3, (3, 2): 12, (3, 3): 2}
    pools = {k: list(shapes.datasets(k[0], k[1], cover=True, allow_empty=(k[1] >= 2))) for k in plan}
    singles = [(op,) for op in OPS]
    pairs = [p for p in itertools.product(OPS + list(SCORE_OPS), repeat=2)]
    items = []
    # every operation alone on a few datasets, then sampled pairs
    dsl = []
    for k, c in plan.items():
        dsl += [(d, k) for d in rnd.sample(pools[k], min(c, len(pools[k])))]
    # directed shapes: first ranking misses elements that appear later in non-natural order; an empty ranking
    dsl += [(((0, -1, -1), (0, 2, 1)), (3, 2)), (((0, -1, -1), (-1, -1, -1), (1, 0, 2)), (3, 3)), (((-1, -1, -1), (0, 1, 1)), (3, 2))]
    for i, (d, k) in enumerate(dsl):
        nm = sweep.NAMINGS[k[0]][i % len(sweep.NAMINGS[k[0]])]
        for s in singles:
            if s[0] in heavy and i % 3:
                continue
            items.append((d, nm, s, bool(i % 2)))
    for i, d in enumerate(sweep.comp3plus1()[:4 if not run.thorough else 12]):
        nm = sweep.NAMINGS[4][i % len(sweep.NAMINGS[4])]
        items.append((d, nm, ("ParCons",), True))
        items.append((d, nm, ("ParCons(nocplex)", "Borda"), True))
    # user-side scoring sequences: several candidates scored one after the other, alone and around algorithm runs
    sc_seqs = [("score(tied)", "score(order)", "score(reverse)", "score(first|rest)"), ("score(reverse)", "Copeland", "score(tied)"),
               ("Borda", "score(order)", "parcons_partition", "score(first|rest)")]
    for i, (d, k) in enumerate(dsl):
        if i % (1 if run.thorough else 3) == 0:
            items.append((d, sweep.NAMINGS[k[0]][i % len(sweep.NAMINGS[k[0]])], sc_seqs[(i // 3) % len(sc_seqs)], bool(i % 2)))
    for i in range(nseq):
        d, k = dsl[rnd.randrange(len(dsl))]
        seq = pairs[rnd.randrange(len(pairs))]
        if sum(1 for o in seq if o in heavy) > 1:
            continue
        items.append((d, sweep.NAMINGS[k[0]][i % len(sweep.NAMINGS[k[0]])], seq, bool(i % 2)))
    run.bounds = {"datasets": len(dsl), "operations": OPS + list(SCORE_OPS), "sequences": "every single operation + %d sampled ordered pairs" % nseq,
                  "sizes": "n <= 3, m <= 3 incl. empty rankings; plus n=4 datasets with a non-tieable component and a further element (ParCons sub-problems)"}
    run.assumptions = ["dataset shapes and operation sequences enumerated / sampled (declared enumeration), scheme symbolic",
                       "nondeterministic choices (pivots, ILP optimum) of the shared run are pinned in the fresh run",
                       "snapshot = rankings, buckets, positions, domains, both id maps, flags, name, both matrices, penalty terms (by value)"]
    run.outside = ["sequences longer than 2 operations (4 for the user-side scoring sequences)", "n > 3"]
    run.rule = "one item per (dataset, sequence); per path: snapshot comparison after every operation, shared vs fresh, repeat"
    run.pmap("monitor", item, items, chunksize=1)
    run.extra["work_items"] = len(items)


def replay(p):
    from corankco.dataset import Dataset
    from corankco.scoringscheme import ScoringScheme
    from vf import standins
    sweep.install()
    sc = ScoringScheme([[float(x) for x in v] for v in p["scheme"]])
    ds = Dataset.from_raw_list(shapes.from_json(p["rankings"]))
    ds.name = "shared"
    names = p.get("names") or sorted({x for r in p["rankings"] for b in r for x in b}, key=str)
    s0 = snapshot(ds, sc)
    lvs = [{names.index(x): i for i, b in enumerate(r) for x in b} for r in p["rankings"]]
    pins = [c[1] for c in p.get("choices", [])]
    for k, op in enumerate(p["ops"]):
        standins.PINNED[:] = list(pins)
        standins.uninstall_pulp() if op == "ExactPulp" else None
        try:
            res, score = do_op(op, ds, sc, names, p["flag"])
        except Exception as e:  # noqa
            return p["check"] == "raises", f"{op} raised {type(e).__name__}: {e}"
        d = diff(s0, snapshot(ds, sc))
        if d:
            return True, f"{op} modified its inputs: {d} changed"
        if res[0] == "score-op":
            cand = {int(e): i for e, i in res[1].items()}
            exp = spec.score_c(cand, lvs, sc.b_vector, sc.t_vector, elems=list(range(len(names))))
            if abs(score[0] - exp) > 1e-9:
                return True, f"{op} after {p['ops'][:k]}: user-built Consensus scores {score[0]}, in a fresh state {exp}"
        ds2 = Dataset.from_raw_list(shapes.from_json(p["rankings"]))
        ds2.name = "shared"
        sc2 = ScoringScheme([[float(x) for x in v] for v in p["scheme"]])
        standins.PINNED[:] = list(pins)
        res2, score2 = do_op(op, ds2, sc2, names, p["flag"])
        if res != res2 and op not in NONDET:
            return True, f"{op} after {p['ops'][:k]}: shared objects give {res[1]}, fresh copies {res2[1]}"
        if score is not None and score2 is not None and score[0] is not None and abs(score[0] - score2[0]) > 1e-9:
            return True, f"{op}: score {score[0]} on shared objects, {score2[0]} on fresh copies"
        if op not in NONDET:
            standins.PINNED[:] = list(pins)
            res3, _ = do_op(op, ds, sc, names, p["flag"])
            if res3 != res:
                return True, f"{op} called twice: {res[1]} then {res3[1]}"
    return False, "inputs untouched, results repeatable"
