"""Replay a counterexample against the real library in a fresh process (JIT enabled, real numpy, real CBC).
exit 0: the violation reproduces; exit 4: it does not; anything else: replay harness failure."""
import sys, json, importlib


def main():
    path = sys.argv[1]
    p = json.load(open(path))
    mod = importlib.import_module("vf.checks." + p["property"].lower())
    ok, detail = mod.replay(p)
    print(("REPRODUCED " if ok else "NOT-REPRODUCED ") + str(detail).replace("\n", " | "))
    sys.exit(0 if ok else 4)


if __name__ == "__main__":
    main()
