"""Fork-mode sweep of the real algorithms over enumerated dataset shapes with a symbolic scoring scheme.

One work item = (configuration, dataset shape, naming, return_at_most_one_ranking).  Every feasible path of the
real compute_consensus_rankings is explored; on each path an Observation is built and the property-specific check
functions are applied (each is a list of solver queries over all penalties compatible with the path).
"""
import itertools, json
import z3
from vf import harness, fork, spec, shapes, standins
from vf.harness import STATS

THR = z3.RealVal("-1/1000")


# ------------------------------------------------------------------ configurations
class Recorder:
    """delegating wrapper around a starting algorithm that records what it returned (built lazily as a subclass of
    RankAggAlgorithm so that BioConsert's isinstance test accepts it)"""
    _cls = None

    @staticmethod
    def make(inner, log):
        from corankco.algorithms.rank_aggregation_algorithm import RankAggAlgorithm
        if Recorder._cls is None:
            class _Rec(RankAggAlgorithm):
                def __init__(self, inner_, log_):
                    self._inner, self._log = inner_, log_

                def compute_consensus_rankings(self, dataset, scoring_scheme, return_at_most_one_ranking=True, bench_mode=False):
                    c = self._inner.compute_consensus_rankings(dataset, scoring_scheme, return_at_most_one_ranking, bench_mode)
                    self._log.append((self._inner.get_full_name(), c))
                    return c

                def get_full_name(self):
                    return self._inner.get_full_name()

                def is_scoring_scheme_relevant_when_incomplete_rankings(self, *a, **k):
                    return self._inner.is_scoring_scheme_relevant_when_incomplete_rankings(*a, **k)
            Recorder._cls = _Rec
        return Recorder._cls(inner, log)


def make_config(name, log=None):
    """returns (algorithm, cplex_present)"""
    from corankco.algorithms.bioconsert.bioconsert import BioConsert
    from corankco.algorithms.bioconsert.bioco import BioCo
    from corankco.algorithms.borda.borda import BordaCount
    from corankco.algorithms.copeland.copeland import CopelandMethod
    from corankco.algorithms.kwiksort.kwiksortrandom import KwikSortRandom
    from corankco.algorithms.pickaperm.pickaperm import PickAPerm
    from corankco.algorithms.parcons.parcons import ParCons
    from corankco.algorithms.exact.exactalgorithm import ExactAlgorithm
    from corankco.algorithms.exact.exactalgorithmpulp import ExactAlgorithmPulp
    from corankco.algorithms.exact.exactalgorithmcplex import ExactAlgorithmCplex
    from corankco.algorithms.exact.exactalgorithmcplexforpaperoptim1 import ExactAlgorithmCplexForPaperOptim1
    log = log if log is not None else []
    rec = lambda a: Recorder.make(a, log)  # noqa
    cplex = "nocplex" not in name
    standins.install(cplex_present=cplex)
    table = {
        "BioConsert": lambda: BioConsert(),
        "BioConsert[Copeland]": lambda: BioConsert([rec(CopelandMethod())]),
        "BioConsert[Borda]": lambda: BioConsert([rec(BordaCount())]),
        "BioConsert[PickAPerm]": lambda: BioConsert([rec(PickAPerm())]),
        "BioConsert[KwikSort]": lambda: BioConsert([rec(KwikSortRandom())]),
        "BioConsert[KwikSort,Borda]": lambda: BioConsert([rec(KwikSortRandom()), rec(BordaCount())]),
        "BioConsert[Copeland,PickAPerm]": lambda: BioConsert([rec(CopelandMethod()), rec(PickAPerm())]),
        "BioConsert[Borda,Copeland]": lambda: BioConsert([rec(BordaCount()), rec(CopelandMethod())]),
        "BioConsert[PickAPerm,Borda]": lambda: BioConsert([rec(PickAPerm()), rec(BordaCount())]),
        "BioCo": lambda: BioCo(),
        "BioConsert[Borda,Borda(bucket_id)]": lambda: BioConsert([rec(BordaCount()), rec(BordaCount(use_bucket_id=True))]),
        # nested starters (not wrapped: the library may look at their class)
        "BioConsert[BioCo]": lambda: BioConsert([BioCo()]),
        "BioConsert[Copeland,BioCo]": lambda: BioConsert([CopelandMethod(), BioCo()]),
        "BioConsert[BioConsert[PickAPerm]]": lambda: BioConsert([BioConsert([PickAPerm()])]),
        "ParCons(1,BioConsert[BioCo])": lambda: ParCons(auxiliary_algorithm=BioConsert([BioCo()]), bound_for_exact=1),
        "KwikSortRandom": lambda: KwikSortRandom(),
        "Borda": lambda: BordaCount(),
        "Borda(bucket_id)": lambda: BordaCount(use_bucket_id=True),
        "Copeland": lambda: CopelandMethod(),
        "PickAPerm": lambda: PickAPerm(),
        "ExactPulp": lambda: ExactAlgorithmPulp(),
        "ExactCplex(noopt)": lambda: ExactAlgorithmCplex(optimize=False),
        "ExactCplex(opt)": lambda: ExactAlgorithmCplex(optimize=True),
        "ExactCplexOptim1": lambda: ExactAlgorithmCplexForPaperOptim1(),
        "Exact(opt)": lambda: ExactAlgorithm(optimize=True),
        "Exact(noopt)": lambda: ExactAlgorithm(optimize=False),
        "Exact(opt,nocplex)": lambda: ExactAlgorithm(optimize=True),
        "Exact(noopt,nocplex)": lambda: ExactAlgorithm(optimize=False),
        "ParCons": lambda: ParCons(auxiliary_algorithm=rec(BioConsert())),
        "ParCons(nocplex)": lambda: ParCons(auxiliary_algorithm=rec(BioConsert())),
        "ParCons(1,BioConsert)": lambda: ParCons(auxiliary_algorithm=rec(BioConsert()), bound_for_exact=1),
        "ParCons(1,Copeland)": lambda: ParCons(auxiliary_algorithm=rec(CopelandMethod()), bound_for_exact=1),
        "ParCons(2,Copeland)": lambda: ParCons(auxiliary_algorithm=rec(CopelandMethod()), bound_for_exact=2),
        "ParCons(3,Copeland)": lambda: ParCons(auxiliary_algorithm=rec(CopelandMethod()), bound_for_exact=3),
        "ParCons(2,Borda,nocplex)": lambda: ParCons(auxiliary_algorithm=rec(BordaCount()), bound_for_exact=2),
    }
    return table[name](), cplex


ALL_CONFIGS = ["BioConsert", "BioConsert[Copeland]", "BioConsert[KwikSort,Borda]", "BioCo", "KwikSortRandom", "Borda",
               "Borda(bucket_id)", "Copeland", "PickAPerm", "ExactPulp", "ExactCplex(noopt)", "ExactCplex(opt)",
               "ExactCplexOptim1", "Exact(opt)", "Exact(opt,nocplex)", "ParCons", "ParCons(nocplex)", "ParCons(1,BioConsert)",
               "ParCons(1,Copeland)"]


# ------------------------------------------------------------------ shims specific to the sweep
_INSTALLED = {}
MAX_PIVOT_DRAWS = 32        # n <= 6 elements need at most n draws per run; a path holds a handful of runs


def install():
    if _INSTALLED:
        return _INSTALLED
    import os
    import corankco.algorithms.kwiksort.kwiksortrandom as KR
    import corankco.algorithms.bioconsert.bioconsert as Bm
    replaying = bool(os.environ.get("VF_REPLAY"))
    sh = {} if replaying else fork.install_shims()

    def sym_choice(seq):
        seq = list(seq)
        ctx = fork.CUR if fork.CUR is not None else standins.ConcreteCtx()
        if fork.CUR is not None and sum(1 for c in ctx.choices if c[0] == "pivot") > MAX_PIVOT_DRAWS:
            # a sort that draws a pivot on a group that does not shrink recurses for ever under an adversarial chooser: the
            # path is abandoned, the other paths are still explored, and the run is inconclusive unless a violation is replayed
            raise fork.Abandon(f"more than {MAX_PIVOT_DRAWS} pivot draws on one path (group not shrinking?)")
        return seq[ctx.choose(len(seq), "pivot")]
    KR.choice = sym_choice
    sh["corankco.algorithms.kwiksort.kwiksortrandom.choice"] = "arbitrary element (forked / pinned in replays)"
    if replaying:
        _INSTALLED.update(sh)
        return _INSTALLED
    real_improve = Bm._improve_one_ranking

    def improve_summary(r, cost, n):
        if fork.CUR is None:
            return real_improve(r, cost, n)
        r0 = r.copy()

        def run(c):
            rr = r0.copy()
            d = real_improve(rr, cost, n)
            return (tuple(int(x) for x in rr), d)
        key = ("improve", tuple(int(x) for x in r0), n, tuple(fork.lift(c).sexpr() for c in cost))
        grp = fork.summarize(run, lambda res: res[0], key)
        r[:] = grp[0][1][0]
        return fork.ite_chain(grp, lambda res: res[1])
    improve_summary.__wrapped__ = real_improve
    Bm._improve_one_ranking = improve_summary
    sh["corankco.algorithms.bioconsert.bioconsert._improve_one_ranking"] = \
        "real function, explored in a nested sub-exploration whose paths are merged by final ranking"
    _INSTALLED.update(sh)
    return _INSTALLED


# ------------------------------------------------------------------ observation
class Obs:
    pass


def observe(ctx, cfg, lvs, names, flag, B, T, sc, ds, alg=None):
    o = Obs()
    o.cfg, o.lvs, o.names, o.flag, o.B, o.T, o.sc, o.ds, o.ctx = cfg, lvs, names, flag, B, T, sc, ds, ctx
    o.n = len(names)
    o.log = []
    o.exc = None
    o.cons = None
    o.present = [e for e in range(o.n) if any(r[e] != -1 for r in lvs)]
    o.complete = all(all(r[e] != -1 for e in o.present) for r in lvs)
    try:
        if alg is None:
            alg, o.cplex = make_config(cfg, o.log)
        o.alg = alg
        o.cons = alg.compute_consensus_rankings(ds, sc, flag)
    except harness.HarnessError:
        raise
    except harness.Inconclusive:
        raise
    except Exception as e:  # noqa
        o.exc = e
    o.rankings = None
    o.malformed = None
    if o.cons is not None:
        try:
            o.rankings = [shapes.ranking_levels(r, names) for r in o.cons.consensus_rankings]
        except Exception as e:  # noqa
            o.malformed = f"{type(e).__name__}: {e}"
    return o


def score_term(o, lv):
    """definition score of a complete level vector over the present elements"""
    return fork.term(spec.score_c(lv, o.lvs, o.B, o.T, elems=o.present))


def payload(o, mdl, what, cls, extra=None):
    p = {"signature": {"site": o.cfg, "class": cls}, "what": f"{o.cfg}: {what}", "config": o.cfg,
         "rankings": shapes.raw_json(o.lvs, o.names), "flag": o.flag, "check": cls,
         "scheme": fork.scheme_values(mdl, o.B, o.T) if mdl is not None else nice_default(),
         "choices": [c for c in o.ctx.choices if c[0] in ("pivot", "pulp-optimum", "cplex-optimum", "pool-anchor")]}
    if extra:
        p.update(extra)
    return p


def nice_default():
    return [[0, 1, 1, 0, 1, 1], [1, 1, 0, 1, 1, 0]]


def nice_model(ctx, bad, B, T):
    """model of pc /\\ bad, preferring penalties that are multiples of 1/4 below 16 (exact in float64)"""
    if bad is None:
        return None
    ks = [z3.Int(f"_k{i}") for i in range(12)]
    cons = [z3.And(k >= 0, k <= 64, v * 4 == z3.ToReal(k)) for k, v in zip(ks, B + T)]
    m = ctx.feasible(z3.And(bad, *cons), "replay-model", soft_timeout_ms=3000)
    if m is not None:
        return m
    return ctx.feasible(bad, "replay-model", soft_timeout_ms=20000)


def prove(o, phi, what, cls, out, extra=None):
    """phi must hold for all penalties on this path; otherwise record a candidate violation"""
    mdl = o.ctx.prove(phi)
    if mdl is None:
        return True
    if phi is not True:
        m2 = nice_model(o.ctx, z3.Not(phi) if phi is not False else z3.BoolVal(True), o.B, o.T)
        mdl = m2 or mdl
    out.append(payload(o, mdl, what, cls, extra))
    return False


# ------------------------------------------------------------------ checks (symbolic)
REFUSALS = ("ScoringSchemeNotHandledException", "InompleteRankingsIncompatibleWithScoringSchemeException",
            "IncompatibleArgumentsException")


def chk_crash(o, out):
    """an exception that is not a documented refusal is never silently skipped: it becomes a candidate that the replay
    confirms (violation) or not (inconclusive: the symbolic run could not follow the real code)"""
    if o.exc is not None and type(o.exc).__name__ not in REFUSALS:
        prove(o, False, f"raised {type(o.exc).__name__}: {str(o.exc)[:300]}", "raises", out)


def chk_accepts(o, out):
    """no exception at all on this path (used where the algorithm must accept the input)"""
    if o.exc is not None:
        prove(o, False, f"raised {type(o.exc).__name__}: {o.exc}", "raises", out)
        return False
    return True


def chk_wellformed(o, out):
    if o.exc is not None:
        return
    c = o.cons
    if o.malformed:
        prove(o, False, f"consensus contains foreign/ill-typed elements: {o.malformed}", "wf-foreign", out)
        return
    if len(o.rankings) < 1:
        prove(o, False, "no consensus ranking returned", "wf-empty", out)
        return
    if o.flag and len(o.rankings) != 1:
        prove(o, False, f"{len(o.rankings)} rankings returned although at most one was requested", "wf-count", out)
        return
    from corankco.element import Element
    uni = {(type(nm), nm) for e, nm in enumerate(o.names) if e in o.present}
    for r in c.consensus_rankings:
        seen = []
        for b in r:
            if len(b) == 0:
                prove(o, False, f"empty bucket in {r}", "wf-emptybucket", out)
                return
            for el in b:
                if not isinstance(el, Element):
                    prove(o, False, f"non-Element member {el!r}", "wf-type", out)
                    return
                seen.append((el.type, el.value))
        if len(seen) != len(set(seen)):
            prove(o, False, f"element repeated in {r}", "wf-dup", out)
            return
        if set(seen) != uni:
            prove(o, False, f"consensus {r} is not over exactly the universe", "wf-universe", out)
            return


def chk_reported(o, out):
    if o.exc is not None or o.rankings is None:
        return
    try:
        rep = o.cons.kemeny_score
    except Exception as e:  # noqa
        prove(o, False, f"reading kemeny_score raised {type(e).__name__}: {e}", "score-raises", out)
        return
    if rep is None:
        prove(o, False, "reported score is None", "score-absent", out)
        return
    rep_t = fork.term(rep)
    for lv in o.rankings:
        if any(lv[e] == -1 for e in o.present):
            continue
        st = score_term(o, lv)
        eps = z3.RealVal("1/1000000")
        if not prove(o, z3.And(rep_t - st <= eps, st - rep_t <= eps, rep_t >= 0),
                     f"reported score differs from the true score of returned ranking {spec.buckets_of(lv)}", "score", out):
            return


def single_moves(lv, present):
    """all level vectors (as comparable keys, not nec. dense) reachable by moving one element"""
    res = []
    levels = sorted(set(lv[e] for e in present))
    for e in present:
        for l in levels:
            if l != lv[e]:
                v = list(lv)
                v[e] = l
                res.append((e, f"join bucket {l}", tuple(v)))
        for i in range(len(levels) + 1):
            v = [2 * x + 1 if x != -1 else -1 for x in lv]
            v[e] = 2 * i
            res.append((e, f"new bucket at {i}", tuple(v)))
    return res


def chk_localopt(o, out):
    if o.exc is not None or o.rankings is None:
        return
    for lv in o.rankings:
        if any(lv[e] == -1 for e in o.present):
            continue
        base = score_term(o, lv)
        conj = []
        for e, what, v in single_moves(lv, o.present):
            conj.append(score_term(o, v) - base >= THR)
        if conj and not prove(o, z3.And(*conj), f"returned ranking {spec.buckets_of(lv)} can be improved by more than 0.001 by a "
                                                 f"single-element move", "localopt", out):
            return


def unified(lv, present):
    mx = max([x for x in lv if x != -1], default=-1)
    return tuple((lv[e] if lv[e] != -1 else mx + 1) if e in present else -1 for e in range(len(lv)))


def det_starters(cfg):
    from corankco.algorithms.borda.borda import BordaCount
    from corankco.algorithms.copeland.copeland import CopelandMethod
    from corankco.algorithms.pickaperm.pickaperm import PickAPerm
    B, Bb, C, P = ("BordaCount", BordaCount), ("BordaCount(bucket ids)", lambda: BordaCount(use_bucket_id=True)), ("CopelandMethod", CopelandMethod), ("PickAPerm", PickAPerm)
    return {"BioCo": [B], "BioConsert[Copeland]": [C], "BioConsert[Borda]": [B], "BioConsert[PickAPerm]": [P], "BioConsert[Borda,Copeland]": [B, C],
            "BioConsert[PickAPerm,Borda]": [P, B], "BioConsert[Copeland,PickAPerm]": [C, P], "BioConsert[Borda,Borda(bucket_id)]": [B, Bb]}.get(cfg)


def chk_starts(o, out):
    """C09: result never worse than any starting point; all returned rankings share the best score"""
    if o.exc is not None or o.rankings is None:
        return
    res = [lv for lv in o.rankings if all(lv[e] != -1 for e in o.present)]
    if not res:
        return
    s0 = score_term(o, res[0])
    for lv in res[1:]:
        if not prove(o, score_term(o, lv) == s0, "returned rankings do not share one score", "starts-share", out):
            return
    starts = []
    det = det_starters(o.cfg)
    if det is not None:
        # deterministic starters: the consensus of every starter the caller LISTED is recomputed on this path, independently
        # of what the run recorded (a starter the library silently dropped is still a starting point of the property)
        for nm, factory in det:
            try:
                c = factory().compute_consensus_rankings(o.ds, o.sc, True)
            except harness.HarnessError:
                raise
            except harness.Inconclusive:
                raise
            except Exception as e:  # noqa
                if type(e).__name__ in REFUSALS:
                    continue
                raise
            starts.append((f"{nm}'s consensus", shapes.ranking_levels(c.consensus_rankings[0], o.names)))
    elif o.log:
        for nm, c in o.log:
            try:
                starts.append((f"{nm}'s consensus", shapes.ranking_levels(c.consensus_rankings[0], o.names)))
            except Exception:  # noqa
                pass
    else:
        for r in o.lvs:
            starts.append(("unified input ranking", unified(r, o.present)))
        starts.append(("all-tied ranking", tuple(0 if e in o.present else -1 for e in range(o.n))))
    for nm, lv in starts:
        if any(lv[e] == -1 for e in o.present):
            continue
        if not prove(o, s0 <= score_term(o, lv), f"result {spec.buckets_of(res[0])} scores worse than {nm} {spec.buckets_of(lv)}",
                     "starts", out):
            return


def weak_orders_present(o):
    lvs = []
    k = len(o.present)
    for lv in spec.level_vectors(k):
        full = [-1] * o.n
        for i, e in enumerate(o.present):
            full[e] = lv[i]
        lvs.append(tuple(full))
    return lvs


def chk_optimal(o, out, cls="optimal"):
    if o.exc is not None or o.rankings is None:
        return
    if len(o.present) > 5:
        STATS.notes["optimality oracle skipped: more than 5 elements (outside the bound of the all-rankings oracle)"] += 1
        return
    ws = weak_orders_present(o)
    wt = [score_term(o, w) for w in ws]
    for lv in o.rankings:
        if any(lv[e] == -1 for e in o.present):
            continue
        st = score_term(o, lv)
        if not prove(o, z3.And(*[st <= t for t in wt]), f"returned ranking {spec.buckets_of(lv)} is not a global optimum", cls, out):
            return


def chk_flag_truthful(o, out):
    if o.exc is not None or o.rankings is None:
        return
    if o.cons.necessarily_optimal:
        chk_optimal(o, out, "flag")


# ------------------------------------------------------------------ concrete oracles (replay)
def concrete_run(p):
    """re-run the configuration of a payload against the real library with a concrete scheme"""
    from corankco.dataset import Dataset
    from corankco.scoringscheme import ScoringScheme
    install()
    standins.PINNED[:] = [c[1] for c in p.get("choices", [])]
    if "scheme_written" in p:
        sc = ScoringScheme(p["scheme_written"])        # penalties exactly as the user wrote them (ints stay ints)
    else:
        sc = ScoringScheme([[float(x) for x in p["scheme"][0]], [float(x) for x in p["scheme"][1]]])
    if "history" in p and "op" in p["history"]:
        from corankco.element import Element
        ds = Dataset.from_raw_list(shapes.from_json(p["history"]["first"]))
        pins = list(standins.PINNED)
        try:
            a0, _ = make_config(p["config"], [])
            if p["config"] in ("ExactPulp", "Exact(opt,nocplex)", "Exact(noopt,nocplex)", "ParCons(nocplex)", "ParCons(2,Borda,nocplex)"):
                standins.uninstall_pulp()
            standins.PINNED[:] = []
            a0.compute_consensus_rankings(ds, sc, p["flag"])
            ds.get_positions(), ds.get_bucket_ids(), ds.universe, ds.unified_rankings()
        except Exception:  # noqa
            pass
        standins.PINNED[:] = pins
        op = p["history"]["op"]
        if op[0] == "empty":
            ds.remove_empty_rankings()
        else:
            names0 = sorted({x for r in p["history"]["first"] for b in r for x in b}, key=str)
            removed = [x for x in names0 if x not in {y for r in p["rankings"] for b in r for y in b}]
            ds.remove_elements({Element(x) for x in removed})
    else:
        ds = Dataset.from_raw_list(shapes.from_json(p["rankings"]))
    log = []
    alg, cplex = make_config(p["config"], log)
    if p["config"] in ("ExactPulp", "Exact(opt,nocplex)", "Exact(noopt,nocplex)", "ParCons(nocplex)", "ParCons(2,Borda,nocplex)"):
        standins.uninstall_pulp()      # real PuLP + CBC
    exc, cons = None, None
    try:
        cons = alg.compute_consensus_rankings(ds, sc, p["flag"])
    except Exception as e:  # noqa
        exc = e
    return ds, sc, alg, cons, exc, log


def replay_dataset(p, sc):
    """the real Dataset of a payload; with a recorded history: build the first dataset, aggregate once with the payload's
    configuration (primes every cache), apply the in-place edit"""
    from corankco.dataset import Dataset
    if "history" not in p or "op" not in p["history"]:
        return Dataset.from_raw_list(shapes.from_json(p["rankings"]))
    from corankco.element import Element
    from corankco.partitioning.ordered_partition import OrderedPartition
    ds = Dataset.from_raw_list(shapes.from_json(p["history"]["first"]))
    try:
        a0, _ = make_config(p["config"], [])
        a0.compute_consensus_rankings(ds, sc, p["flag"])
        ds.get_positions(), ds.get_bucket_ids(), ds.universe, ds.unified_rankings()
        OrderedPartition.parfront_partition(ds, sc)
    except Exception:  # noqa
        pass
    op = p["history"]["op"]
    if op[0] == "empty":
        ds.remove_empty_rankings()
    else:
        names0 = sorted({x for r in p["history"]["first"] for b in r for x in b}, key=str)
        ds.remove_elements({Element(x) for x in names0 if x not in {y for r in p["rankings"] for b in r for y in b}})
    return ds


def concrete_levels(p):
    names = sorted({x for r in p["rankings"] for b in r for x in b}, key=str)
    lvs = []
    for r in p["rankings"]:
        lv = {x: i for i, b in enumerate(r) for x in b}
        lvs.append(lv)
    return names, lvs


def cscore(r, names, lvs, sc):
    """definition score of a real Ranking"""
    clv = {}
    for i, b in enumerate(r):
        for el in b:
            clv[el.value] = i
    return spec.score_c(clv, lvs, sc.b_vector, sc.t_vector, elems=list(clv.keys()))


def all_weak_orders_scores(names, lvs, sc):
    best = None
    for part in spec.ordered_partitions(names):
        clv = {x: i for i, b in enumerate(part) for x in b}
        s = spec.score_c(clv, lvs, sc.b_vector, sc.t_vector, elems=names)
        if best is None or s < best[0]:
            best = (s, part)
    return best


def replay(p):
    from corankco.element import Element
    ds, sc, alg, cons, exc, log = concrete_run(p)
    names, lvs = concrete_levels(p)
    chk = p["check"]
    if chk == "raises":
        return (exc is not None), f"raised {type(exc).__name__}: {exc}" if exc is not None else "no exception"
    if exc is not None:
        return False, f"raised {type(exc).__name__}: {exc} (different failure)"
    rks = cons.consensus_rankings
    if chk.startswith("wf"):
        if len(rks) < 1 or (p["flag"] and len(rks) != 1):
            return True, f"{len(rks)} rankings returned (flag={p['flag']})"
        uni = {(type(x), x) for x in names}
        for r in rks:
            seen = [(el.type, el.value) if isinstance(el, Element) else ("?", el) for b in r for el in b]
            if any(len(b) == 0 for b in r) or len(seen) != len(set(seen)) or set(seen) != uni:
                return True, f"ill-formed consensus {r} for universe {names}"
        return False, "well-formed"
    if chk.startswith("score"):
        rep = cons.kemeny_score
        if rep is None or rep < 0:
            return True, f"reported score {rep}"
        for r in rks:
            t = cscore(r, names, lvs, sc)
            if abs(rep - t) > 1e-6:
                return True, f"reported {rep} but {r} scores {t}"
        return False, f"reported {rep} is the true score"
    if chk == "localopt":
        for r in rks:
            lv = shapes.ranking_levels(r, names)
            base = cscore(r, names, lvs, sc)
            for e, what, v in single_moves(lv, list(range(len(names)))):
                clv = {names[i]: v[i] for i in range(len(names))}
                s = spec.score_c(clv, lvs, sc.b_vector, sc.t_vector, elems=names)
                if s - base < -0.001 - 1e-9:
                    return True, f"{r} (score {base}) improves to {s} by moving {names[e]}: {what}"
        return False, "local optimum"
    if chk in ("starts", "starts-share"):
        scs = [cscore(r, names, lvs, sc) for r in rks]
        if max(scs) - min(scs) > 1e-9:
            return True, f"returned rankings have different scores {scs}"
        starts = []
        det = det_starters(p["config"])
        if det is not None:
            for nm, factory in det:
                try:
                    c = factory().compute_consensus_rankings(ds, sc, True)
                except Exception as e:  # noqa
                    if type(e).__name__ in REFUSALS:
                        continue
                    raise
                starts.append((nm, cscore(c.consensus_rankings[0], names, lvs, sc), c.consensus_rankings[0]))
        elif log:
            for nm, c in log:
                starts.append((nm, cscore(c.consensus_rankings[0], names, lvs, sc), c.consensus_rankings[0]))
        else:
            for r in ds.unified_rankings():
                starts.append(("unified input", cscore(r, names, lvs, sc), r))
            tied = {x: 0 for x in names}
            starts.append(("all tied", spec.score_c(tied, lvs, sc.b_vector, sc.t_vector, elems=names), "all-tied"))
        for nm, s, r in starts:
            if scs[0] > s + 1e-9:
                return True, f"result {rks[0]} scores {scs[0]} > {s} of starting point {nm} {r}"
        return False, "not worse than any starting point"
    if chk in ("optimal", "flag"):
        best = all_weak_orders_scores(names, lvs, sc)
        if chk == "flag" and not cons.necessarily_optimal:
            return False, "not flagged optimal"
        for r in rks:
            t = cscore(r, names, lvs, sc)
            if t > best[0] + 1e-9:
                return True, f"{r} scores {t} but {best[1]} scores {best[0]}" + (" (flagged necessarily optimal)" if chk == "flag" else "")
        return False, f"optimal (score {best[0]})"
    raise harness.HarnessError(f"no concrete oracle for check {chk}")


# ------------------------------------------------------------------ work item
FAMILIES = {
    # two-parameter sub-family of the valid schemes (used for the larger strata, where 12 free penalties give too many paths)
    "pq": lambda B, T: [B[1] == 1, B[2] == T[0], B[3] == 0, B[4] == 1, T[3] == T[0], T[5] == 0],
}


def apply_history(ds, lvs, names, hist):
    """in-place edit of a real dataset; returns the level vectors the edited dataset must be equivalent to"""
    from corankco.element import Element
    n = len(names)
    if hist[0] == "empty":
        ds.remove_empty_rankings()
        return tuple(r for r in lvs if any(v != -1 for v in r))
    if hist[0] == "remove":
        e = hist[1]
        ds.remove_elements({Element(names[e])})
        lv2 = tuple(tuple(-1 if i == e else v for i, v in enumerate(r)) for r in lvs)
        return tuple(spec.levels_of(spec.buckets_of(r), n) for r in lv2 if any(v != -1 for v in r))
    raise harness.HarnessError("unknown history " + str(hist))


def run_item(args):
    """args: (cfg, lvs, names, flag, check names[, scheme family[, history]]) -> list of payloads.
    history = ("empty",) or ("remove", e): the algorithm first aggregates the dataset (priming every cache), the dataset is then
    edited in place, and the property is checked on a second aggregation of the SAME Dataset object by a new algorithm object."""
    cfg, lvs, names, flag, checks = args[:5]
    family = args[5] if len(args) > 5 else None
    hist = args[6] if len(args) > 6 else None
    install()
    out = []
    ds = shapes.build(lvs, names) if hist is None else None
    B, T = fork.scheme_vars()
    sc = fork.make_scheme(B, T)
    ex = fork.Explorer(fork.valid_scheme(B, T) + (FAMILIES[family](B, T) if family else []), max_paths=int(2e5))
    table = {"accepts": chk_accepts, "wellformed": chk_wellformed, "reported": chk_reported, "localopt": chk_localopt,
             "starts": chk_starts, "optimal": chk_optimal, "flag": chk_flag_truthful}

    def path_hist(ctx):
        d = shapes.build(lvs, names)
        try:
            alg0, _ = make_config(cfg, [])
            alg0.compute_consensus_rankings(d, sc, flag)
            d.get_positions(), d.get_bucket_ids(), d.universe, d.unified_rankings()
        except harness.HarnessError:
            raise
        except harness.Inconclusive:
            raise
        except Exception:  # noqa
            pass
        ctx.pinned = []
        lv2 = apply_history(d, lvs, names, hist)
        o = observe(ctx, cfg, lv2, names, flag, B, T, sc, d)
        o.history = {"first": shapes.raw_json(lvs, names), "op": list(hist)}
        n0 = len(out)
        chk_crash(o, out)
        for c in checks:
            if len(out) >= 3:
                break
            (table[c] if isinstance(c, str) else c)(o, out)
        for pl in out[n0:]:
            pl["history"] = o.history
            pl["signature"] = dict(pl["signature"], history=hist[0])
        return None

    if hist is not None:
        ex.explore(path_hist)
        STATS.sample({"config": cfg, "history": [shapes.raw_json(lvs, names), "aggregate", list(hist), "aggregate again"], "scheme": "12 symbolic reals"}, cap=8)
        return out

    def path(ctx):
        o = observe(ctx, cfg, lvs, names, flag, B, T, sc, ds)
        chk_crash(o, out)
        for c in checks:
            if len(out) >= 3:
                break
            (table[c] if isinstance(c, str) else c)(o, out)
        return None

    ex.explore(path)
    STATS.sample({"config": cfg, "dataset": shapes.raw_json(lvs, names), "return_at_most_one_ranking": flag,
                  "scheme": "12 symbolic reals (valid)", "checks": [c if isinstance(c, str) else c.__name__ for c in checks]}, cap=8)
    return out


# ------------------------------------------------------------------ one algorithm object, two datasets
def two_calls_item(args):
    """(cfg, lvA, lvB, names, first, checks): ONE algorithm object aggregates dataset A, then dataset B; afterwards the checks
    are applied to both results (in the order given by `first`): state kept by the algorithm object between calls, or stores
    shared by the results of one object, show here and in no single call"""
    cfg, lvA, lvB, names, first, checks = args
    install()
    out = []
    dsA, dsB = shapes.build(lvA, names), shapes.build(lvB, names)
    B, T = fork.scheme_vars()
    sc = fork.make_scheme(B, T)
    ex = fork.Explorer(fork.valid_scheme(B, T), max_paths=int(2e5))
    table = {"accepts": chk_accepts, "wellformed": chk_wellformed, "reported": chk_reported, "localopt": chk_localopt,
             "starts": chk_starts, "optimal": chk_optimal, "flag": chk_flag_truthful}

    def path(ctx):
        log = []
        alg, _ = make_config(cfg, log)
        oA = observe(ctx, cfg, lvA, names, True, B, T, sc, dsA, alg=alg)
        nA = len(log)
        oA.log = log[:nA]
        oB = observe(ctx, cfg, lvB, names, True, B, T, sc, dsB, alg=alg)
        oB.log = log[nA:]
        for o, which in ((oA, "first"), (oB, "second")) if first == "A" else ((oB, "second"), (oA, "first")):
            k = len(out)
            chk_crash(o, out)
            for c in checks:
                if len(out) == k:
                    (table[c] if isinstance(c, str) else c)(o, out)
            for pl in out[k:]:
                pl["two_calls"] = {"A": shapes.raw_json(lvA, names), "B": shapes.raw_json(lvB, names), "read_first": first, "failing": which}
                pl["what"] = f"{cfg}: one algorithm object on two datasets (checked afterwards, {first} first), the {which} result: " + pl["what"]
                pl["signature"] = dict(pl["signature"], history="two calls")
            if len(out) > k:
                return
    ex.explore(path)
    STATS.sample({"config": cfg, "one algorithm object on": [shapes.raw_json(lvA, names), shapes.raw_json(lvB, names)], "checked": first + " first",
                  "scheme": "12 symbolic reals"})
    return out


def two_calls_items(run, cfgs, checks, per_cfg=2):
    import random
    rnd = random.Random(run.seed + 29)
    pool = dataset_pool(3, 2)
    tc = []
    for cfg in cfgs:
        if cfg in HEAVY:
            # local-search configurations: the product of the two runs' paths is large; two-element datasets only
            tc.append((cfg, ((0, 1), (0, 1)), ((1, 0), (0, 0)), [1, 2], "B", checks))
            continue
        for i in range(per_cfg):
            a, b = rnd.choice(pool), rnd.choice(pool)
            tc.append((cfg, a, b, NAMINGS[3][i % 3], "AB"[i % 2], checks))
        # directed: a strict order first, then a dataset whose consensus has ties / another order
        tc.append((cfg, ((0, 1, 2), (0, 1, 2)), ((2, 1, 0), (0, 0, 1)), [1, 2, 3], "B", checks))
    run.bounds["one algorithm object on two datasets, results checked afterwards"] = len(tc)
    return tc


def replay_two_calls(p, judge):
    """concrete counterpart: judge(cons, exc, rankings_json, scheme) -> (violates, detail) for the result named in the payload"""
    from corankco.dataset import Dataset
    from corankco.scoringscheme import ScoringScheme
    install()
    tc = p["two_calls"]
    sc = ScoringScheme([[float(x) for x in v] for v in p["scheme"]])
    standins.PINNED[:] = [c[1] for c in p.get("choices", [])]
    alg, _ = make_config(p["config"], [])
    if p["config"] in ("ExactPulp", "Exact(opt,nocplex)", "Exact(noopt,nocplex)", "ParCons(nocplex)", "ParCons(2,Borda,nocplex)"):
        standins.uninstall_pulp()
    res = {}
    for k in ("A", "B"):
        try:
            res[k] = (alg.compute_consensus_rankings(Dataset.from_raw_list(shapes.from_json(tc[k])), sc, True), None)
        except Exception as e:  # noqa
            res[k] = (None, e)
    for k in (("A", "B") if tc["read_first"] == "A" else ("B", "A")):
        bad, detail = judge(res[k][0], res[k][1], tc[k], sc)
        if bad:
            return True, f"result for dataset {k}: {detail}"
    return False, "both results satisfy the property after both calls"


def judge_wellformed(cons, exc, rj, sc):
    from corankco.element import Element
    if exc is not None:
        return type(exc).__name__ not in REFUSALS, f"raised {type(exc).__name__}: {exc}"
    names = sorted({x for r in rj for b in r for x in b}, key=str)
    uni = {(type(x), x) for x in names}
    rks = cons.consensus_rankings
    if len(rks) != 1:
        return True, f"{len(rks)} rankings returned"
    for r in rks:
        seen = [(el.type, el.value) if isinstance(el, Element) else ("?", el) for b in r for el in b]
        if any(len(b) == 0 for b in r) or len(seen) != len(set(seen)) or set(seen) != uni:
            return True, f"ill-formed consensus {r} for universe {names}"
    return False, "well-formed"


# ------------------------------------------------------------------ conformance of the compiled kernels (JIT on)
WRITINGS = {"ints (unifying)": [[0, 1, 1, 0, 1, 1], [1, 1, 0, 1, 1, 0]], "ints (2 x unifying)": [[0, 2, 2, 0, 2, 2], [2, 2, 0, 2, 2, 0]],
            "ints (induced measure)": [[0, 1, 1, 0, 0, 0], [1, 1, 0, 0, 0, 0]], "ints and floats mixed": [[0, 1.0, 1, 0, 1, 1], [1, 1, 0, 1.0, 1, 0]],
            "floats (pseudo-distance)": [[0., 1., 1., 0., 1., 0.], [1., 1., 0., 1., 1., 1.]], "ints (custom)": [[0, 2, 1, 0, 2, 1], [1, 1, 0, 1, 1, 3]]}
JIT_SHAPES = [((0, 1, 1), (2, 0, 1)), ((0, 1, -1), (1, -1, 0)), ((0, 0, 1), (-1, -1, -1), (1, 0, 2))]


def jit_illformed(job, o):
    names = {(type(x).__name__, x) for rk in job["rankings"] for b in rk for x in b}
    for rk in o["consensus"]:
        seen = [tuple(e) for b in rk for e in b]
        if any(len(b) == 0 for b in rk) or len(seen) != len(set(seen)) or set(seen) != names:
            return True
    return len(o["consensus"]) != 1


def jit_conformance(run, cfgs, judge, writings=None, shapes_=None):
    """[trace validation, not the deciding step] the engines execute the kernels' Python source with numba's JIT off; the
    compiled kernels additionally dispatch on argument dtypes (typed signatures).  Every configuration is therefore run once
    per scheme *writing* (valid schemes written with Python ints, floats, or both) and dataset in ONE fresh process with the
    JIT ON (vf/jitprobe.py); judge(job, outcome, base) returns a candidate payload or None.  Candidates are replayed like
    any other (fresh process, JIT on)."""
    import json, os, subprocess, sys
    writings = writings or WRITINGS
    jobs = []
    for cfg in cfgs:
        for wname, w in writings.items():
            for i, lvs in enumerate(shapes_ or JIT_SHAPES):
                names = [[1, 2, 3], ["b", "a", "c"]][(i + len(jobs)) % 2]
                jobs.append({"config": cfg, "rankings": shapes.raw_json(lvs, names), "scheme_written": w, "scheme": w, "flag": True, "writing": wname,
                             "choices": []})
    env = dict(os.environ)
    env.pop("NUMBA_DISABLE_JIT", None)
    env["VF_REPLAY"] = "1"
    r = subprocess.run([sys.executable, "-m", "vf.jitprobe"], input=json.dumps(jobs), capture_output=True, text=True, env=env, cwd=harness.VERIF, timeout=1500)
    if r.returncode != 0:
        raise harness.HarnessError("JIT conformance probe failed: " + (r.stderr or "")[-600:])
    res = json.loads(r.stdout)
    for job, o in zip(jobs, res):
        STATS.validated += 1
        c = judge(job, o, dict(job, signature={"site": job["config"], "class": "jit:" + job["writing"]}))
        if c is not None:
            run.candidate(c)
    run.extra["jit_conformance_runs"] = len(jobs)


# ------------------------------------------------------------------ item lists
HEAVY = {"BioConsert", "BioConsert[Copeland]", "BioConsert[Borda]", "BioConsert[PickAPerm]", "BioConsert[KwikSort]", "BioConsert[Borda,Copeland]",
         "BioConsert[PickAPerm,Borda]",
         "BioConsert[KwikSort,Borda]", "BioConsert[Copeland,PickAPerm]", "BioCo", "ParCons(1,BioConsert)",
         "BioConsert[BioCo]", "BioConsert[Copeland,BioCo]", "BioConsert[BioConsert[PickAPerm]]", "ParCons(1,BioConsert[BioCo])",
         "BioConsert[Borda,Borda(bucket_id)]"}
NAMINGS = {1: [[5], ["x"]], 2: [[1, 2], [2, 1], ["b", "a"]], 3: [[1, 2, 3], [3, 1, 2], ["b", "a", "c"]],
           4: [[1, 2, 3, 4], [4, 2, 3, 1], ["d", "a", "c", "b"], ["1", "2", "3", "A"]]}


def dataset_pool(n, m, allow_empty=False):
    return list(shapes.datasets(n, m, cover=True, allow_empty=allow_empty))


def cycles3():
    """Condorcet strata on 3 elements: the two cyclic triples of linear orders, each optionally followed by an all-tied
    ranking or a ranking with one tie (the classic instances where the graph of elements is one component)"""
    out = []
    for base in (((0, 1, 2), (1, 2, 0), (2, 0, 1)), ((0, 2, 1), (2, 1, 0), (1, 0, 2))):
        out.append(base)
        out.append(base + ((0, 0, 0),))
        out.append(base + ((0, 0, 1),))
        out.append(base[:2] + ((1, 0, 0),))
        out.append(base + ((0, -1, 1),))
    return out


def sparse4():
    """n=4, m=3: two rankings over three elements + one ranking that misses that whole group (sub-problem projection)"""
    out = []
    for a in ((0, 0, 1, -1), (0, 1, 0, -1), (1, 0, 2, -1), (0, 1, -1, 0)):
        for b in ((1, 0, -1, 0), (-1, 0, 1, 0), (0, -1, 0, 1), (2, 1, 0, -1)):
            for c in ((-1, -1, -1, 0), (-1, -1, 0, -1), (0, -1, -1, -1)):
                ds = (a, b, c)
                if all(any(r[e] != -1 for r in ds) for e in range(4)):
                    out.append(ds)
    return out


def comp3plus1():
    """n=4, m=2..3: three elements forming one component that cannot be all tied (two rankings agree on one pair and
    disagree on the others) plus a fourth element that every ranking puts last / first / omits"""
    out = []
    for a, b in (((0, 1, 2), (1, 2, 0)), ((0, 1, 1), (2, 0, 1)), ((0, 1, 2), (2, 0, 1)), ((1, 0, 2), (0, 2, 1))):
        out.append((a + (3,), b + (3,)))
        out.append((tuple(x + 1 for x in a) + (0,), tuple(x + 1 for x in b) + (0,)))
        out.append((a + (3,), b + (-1,)))
        out.append((a + (-1,), b + (-1,), (-1, -1, -1, 0)))
    return out


def two_cycles6():
    """n=6, m=3: a Condorcet cycle on {0,1,2} unanimously before a Condorcet cycle on {3,4,5} (two components that cannot be
    all tied), plus variants with one tie / the groups swapped"""
    c = ((0, 1, 2), (1, 2, 0), (2, 0, 1))
    out = []
    out.append(tuple(a + tuple(x + 3 for x in b) for a, b in zip(c, c)))
    out.append(tuple(a + tuple(x + 3 for x in b) for a, b in zip(c, (c[1], c[2], c[0]))))
    out.append(tuple(tuple(x + 3 for x in a) + b for a, b in zip(c, c)))
    out.append(tuple(a + tuple(x + 3 for x in b) for a, b in zip(c, ((0, 1, 1), (1, 2, 0), (2, 0, 1)))))
    return out


def cycles43():
    """n=7, m=3: a 4-cycle and a 3-cycle, one unanimously before the other (components of different sizes, so that an
    exact bound of 3 delegates one and solves the other exactly)"""
    a = ((0, 1, 2, 3), (3, 0, 1, 2), (2, 3, 0, 1))     # levels of elements 0..3 in the three rankings
    b = ((0, 1, 2), (2, 0, 1), (1, 2, 0))
    out = []
    out.append(tuple(x + tuple(v + 4 for v in y) for x, y in zip(a, b)))          # 4-cycle first
    out.append(tuple(tuple(v + 3 for v in x) + y for x, y in zip(a, b)))          # 3-cycle first
    return out


STRATA = {"cycles3": cycles3, "sparse4": sparse4, "comp3plus1": comp3plus1, "two_cycles6": two_cycles6, "cycles43": cycles43}
NAMINGS.update({7: [[0, 1, 2, 3, 4, 5, 6], ["g", "b", "c", "a", "e", "d", "f"]]})
NAMINGS.update({6: [[1, 2, 3, 4, 5, 6], ["f", "b", "c", "a", "e", "d"]]})


def make_items(run, configs, checks, flags=(True, False), light=None, heavy=None, strata=(), strata_heavy=()):
    """light / heavy: {(n, m): number of datasets to sample or None for all}; returns the work items and fills run.bounds"""
    import random
    rnd = random.Random(run.seed)
    items = []
    desc = {}
    for cfg in configs:
        plan = heavy if cfg in HEAVY else light
        for (n, m), k in plan.items():
            pool = dataset_pool(n, m, allow_empty=(m >= 2 and n <= 2))
            chosen = pool if (k is None or k >= len(pool)) else rnd.sample(pool, k)
            desc.setdefault(cfg, []).append({"n": n, "m": m, "datasets": len(chosen), "of": len(pool), "exhaustive": len(chosen) == len(pool)})
            for i, lvs in enumerate(chosen):
                names = NAMINGS[n][i % len(NAMINGS[n])]
                for fl in flags:
                    items.append((cfg, lvs, names, fl, checks))
        st_list = strata_heavy if cfg in HEAVY else strata
        if isinstance(st_list, dict):
            st_list = st_list.get(cfg, st_list.get("*", []))
        for st in st_list:
            name, k = (st, None) if isinstance(st, str) else st[:2]
            fam = st[2] if (not isinstance(st, str) and len(st) > 2) else None
            pool = STRATA[name]()
            chosen = pool if (k is None or k >= len(pool)) else rnd.sample(pool, k)
            desc.setdefault(cfg, []).append({"stratum": name, "datasets": len(chosen), "of": len(pool), "scheme family": fam or "all valid"})
            for i, lvs in enumerate(chosen):
                n = len(lvs[0])
                for fl in flags:
                    items.append((cfg, lvs, NAMINGS[n][i % len(NAMINGS[n])], fl, checks) + ((fam,) if fam else ()))
    run.bounds["sweep (per configuration: shapes n, m; datasets explored / all)"] = desc
    run.bounds["scheme"] = "12 symbolic reals under the validity constraints, on every path"
    return items


def history_items(run, configs, checks, k, flags=(True,)):
    """k (dataset, edit) histories per configuration: datasets with an empty ranking + remove_empty_rankings, and datasets with
    >= 2 elements per ranking + removal of one element"""
    import random
    rnd = random.Random(run.seed + 17)
    base = [d for d in dataset_pool(3, 2) if all(sum(1 for v in r if v != -1) >= 2 for r in d)]
    base1 = [d for d in dataset_pool(3, 1)] + [d for d in dataset_pool(2, 2) if all(sum(1 for v in r if v != -1) >= 2 for r in d)]
    items = []
    for cfg in configs:
        for i in range(k):
            d = rnd.choice(base1 if cfg in HEAVY else base)
            if len(d[0]) == 2:
                d = tuple(r + (-1,) for r in d[:1]) + ((0, 1, 2),)
            names = NAMINGS[3][i % 3]
            if i % 3 == 2:
                # flag transition: exactly one element is ranked in some rankings only; removing it makes the dataset complete
                e = rnd.randrange(3)
                full = rnd.choice([r for r in rnd.choice(base) if -1 not in r] or [(0, 1, 2)])
                part = tuple(-1 if x == e else v for x, v in enumerate(rnd.choice([(0, 1, 2), (1, 0, 0), (0, 0, 1), (2, 1, 0)])))
                part = tuple(spec.levels_of(spec.buckets_of(part), 3))
                lvs, hist = ((full, part) if i % 2 else (part, full)), ("remove", e)
            elif i % 2 == 0:
                lvs, hist = d + ((-1, -1, -1),), ("empty",)
            else:
                lvs, hist = d, ("remove", rnd.randrange(3))
            for fl in flags:
                items.append((cfg, lvs, names, fl, checks, None, hist))
    run.bounds["histories (aggregate, edit the dataset in place, aggregate again)"] = {"per configuration": k, "edits": ["remove_empty_rankings", "remove_elements({e})", "remove_elements({e}) turning an incomplete dataset into a complete one"]}
    return items


def validate_engine_f(run, k=24):
    """translation validation of Engine F: for sampled (configuration, dataset, preset scheme) the fork-mode execution with the
    12 penalties pinned to the preset must give the same consensus and score as a plain execution of the same code on floats
    (no proxies, no object arrays).  Counts into traces_validated_against_impl."""
    import random
    from corankco.scoringscheme import ScoringScheme
    rnd = random.Random(run.seed + 5)
    install()
    presets = [ScoringScheme.get_unifying_scoring_scheme(), ScoringScheme.get_induced_measure_scoring_scheme_p(0.5),
               ScoringScheme([[0., 1., 0.5, 0.25, 1., 0.75], [0.5, 0.5, 0., 0.25, 0.25, 1.]])]
    cfgs = ["Copeland", "Borda", "BioConsert", "ExactPulp", "ParCons", "PickAPerm", "ExactCplex(noopt)"]
    pool = dataset_pool(3, 2)
    for i in range(k):
        cfg, lvs, sc0 = cfgs[i % len(cfgs)], rnd.choice(pool), presets[i % 3]
        names = NAMINGS[3][i % 3]
        ds = shapes.build(lvs, names)
        # plain run (proxies absent; stand-ins in concrete mode pick the first optimum, as the pinned fork-mode run does)
        standins.PINNED[:] = []
        try:
            alg, _ = make_config(cfg, [])
            c = alg.compute_consensus_rankings(ds, sc0, True)
            plain = ([shapes.ranking_levels(r, names) for r in c.consensus_rankings], float(c.kemeny_score))
        except Exception as e:  # noqa
            plain = ("exc", type(e).__name__)
        B, T = fork.scheme_vars()
        sc = fork.make_scheme(B, T)
        pre = fork.valid_scheme(B, T) + [b == fork.real_of_float(v) for b, v in zip(B + T, sc0.b_vector + sc0.t_vector)]
        ex = fork.Explorer(pre)
        res = []

        def path(ctx):
            o = observe(ctx, cfg, lvs, names, True, B, T, sc, ds)
            if o.exc is not None:
                res.append(("exc", type(o.exc).__name__))
            else:
                ctx._ensure_model()
                res.append((o.rankings, float(harness.zval(ctx.model, fork.term(o.cons.kemeny_score)))))
        ex.explore(path)
        ok = any(r == plain or (r[0] == plain[0] and r[0] != "exc" and abs(r[1] - plain[1]) < 1e-9) for r in res)
        if plain[0] != "exc" and cfg in ("ExactPulp", "ParCons", "ExactCplex(noopt)", "BioConsert"):
            # several optima / local optima may exist: the plain result must be one of the explored outcomes, scores must agree
            ok = ok or any(r[0] != "exc" and abs(r[1] - plain[1]) < 1e-9 for r in res)
        if not ok:
            raise harness.HarnessError(f"Engine F disagrees with a plain run: {cfg} on {shapes.raw_json(lvs, names)} with {sc0}: plain {plain}, fork-mode {res[:3]}")
        STATS.validated += 1


def order_items(items):
    """heavy configurations and larger shapes first (shorter tail when spread over the workers)"""
    def w(it):
        cfg, lvs = it[0], it[1]
        return -((4 if cfg in HEAVY else 1) * (len(lvs[0]) ** 3) * len(lvs))
    return sorted(items, key=w)
