"""SymDataset: a duck-typed dataset whose rankings are symbolic level vectors, for code that reads a dataset only through
get_positions() / get_bucket_ids() / nb_elements / nb_rankings / mapping_id_elem / mapping_elem_id / universe.

L[e][r] in {-1, 0..n-1} (-1 = unranked; every element ranked at least once).  Positions and bucket ids are z3 terms of the
levels, exactly the representation invariant of Dataset.get_positions / get_bucket_ids (that the real Dataset produces these
matrices from real rankings is C02's / C16's obligation: assume-guarantee).  One path condition then stands for all datasets
with these n, m (150^3 = 3.4 M for n=4, m=3).

With symbolic positions the real kernel _pairwise_cost_matrix_only would fork 6 ways per (pair, ranking); it is therefore
executed by Engine M (merge mode: one ite-term per table cell, no path explosion) from its current source, and the cells are
handed back to the fork-mode run as proxies.
"""
import numpy as np
import z3
from vf import fork, merge, spec, harness
from vf.harness import STATS


class SymDataset:
    def __init__(self, n, m, tag="L"):
        from corankco.element import Element
        self.n, self.m = n, m
        self.L = [[z3.Int(f"{tag}_{e}_{r}") for r in range(m)] for e in range(n)]
        self.names = list(range(1, n + 1))
        self._elems = [Element(x) for x in self.names]
        self.name = "symbolic"

    def constraints(self):
        cs = []
        for e in range(self.n):
            for r in range(self.m):
                cs.append(z3.And(self.L[e][r] >= -1, self.L[e][r] < self.n))
            cs.append(z3.Or(*[self.L[e][r] != -1 for r in range(self.m)]))
        return cs

    # ---- the interface the position-only algorithms use
    @property
    def nb_elements(self):
        return self.n

    @property
    def nb_rankings(self):
        return self.m

    @property
    def mapping_id_elem(self):
        return {i: e for i, e in enumerate(self._elems)}

    @property
    def mapping_elem_id(self):
        return {e: i for i, e in enumerate(self._elems)}

    @property
    def universe(self):
        return set(self._elems)

    def _matrix(self, kind):
        a = np.empty((self.n, self.m), dtype=object)
        for e in range(self.n):
            for r in range(self.m):
                le = self.L[e][r]
                if kind == "positions":
                    cnt = z3.Sum([z3.If(z3.And(self.L[f][r] != -1, self.L[f][r] < le), 1, 0) for f in range(self.n) if f != e]) if self.n > 1 else z3.IntVal(0)
                else:
                    # bucket id = number of occupied levels below the element's level
                    cnt = z3.Sum([z3.If(z3.And(k < le, z3.Or(*[self.L[f][r] == k for f in range(self.n)])), 1, 0) for k in range(self.n)])
                a[e][r] = fork.wrap(z3.If(le == -1, -1, cnt))
        return fork.as_symarr(a)

    def get_positions(self):
        return self._matrix("positions")

    def get_bucket_ids(self):
        return self._matrix("bucket_ids")

    # ---- harness side
    def levels_from(self, model):
        """concrete level vectors (one per ranking) of a model"""
        return tuple(tuple(harness.zval(model, self.L[e][r]) for e in range(self.n)) for r in range(self.m))

    def score_term(self, w, B, T):
        """definition score of candidate level vector w against the symbolic rankings"""
        tot = z3.RealVal(0)
        for r in range(self.m):
            for x in range(self.n):
                for y in range(x + 1, self.n):
                    bf, af, ti = spec.pair_costs_z(B, T, self.L[x][r], self.L[y][r])
                    tot = tot + (bf if w[x] < w[y] else af if w[x] > w[y] else ti)
        return tot

    def cost_table(self, B, T):
        return spec.cost_table_z(self.L, self.n, self.m, B, T)


_installed = {}


def install_kwik_dispatcher():
    """KwikSortRandom._where_should_it_be: symbolic position vectors -> Engine M on the real source (one merged term)"""
    if "kwik" in _installed:
        return
    from corankco.algorithms.kwiksort.kwiksortrandom import KwikSortRandom
    real = KwikSortRandom.__dict__["_where_should_it_be"]

    def dispatch(self, pos_pivot, pos_other, scheme_np):
        if not (isinstance(pos_pivot, np.ndarray) and pos_pivot.dtype == object):
            return real(self, pos_pivot, pos_other, scheme_np)
        I = merge.new_interp()
        a_p = merge.const_array(I, (len(pos_pivot),), [fork.lift(x) for x in pos_pivot.tolist()])
        a_o = merge.const_array(I, (len(pos_other),), [fork.lift(x) for x in pos_other.tolist()])
        sch = merge.const_array(I, np.asarray(scheme_np).shape, [fork.lift(x) for x in np.asarray(scheme_np).ravel().tolist()])
        res = I.call_function(real, [None, a_p, a_o, sch])
        STATS.encoded.update(I.ctx.encoded)
        return fork.wrap(merge.to_z3(res))
    dispatch.__wrapped__ = real
    KwikSortRandom._where_should_it_be = dispatch
    _installed["kwik"] = "KwikSortRandom._where_should_it_be: symbolic positions -> Engine M on the current source"


def install_kernel_dispatcher():
    """_pairwise_cost_matrix_only: symbolic positions -> Engine M on the real source; otherwise the real function"""
    if _installed:
        return
    import corankco.algorithms.pairwisebasedalgorithm as P
    real = P._pairwise_cost_matrix_only

    def dispatch(positions, scheme_np, weights, nb_elem, nb_rankings):
        if not (isinstance(positions, np.ndarray) and positions.dtype == object):
            return real(positions, scheme_np, weights, nb_elem, nb_rankings)
        I = merge.new_interp()
        pos = merge.const_array(I, positions.shape, [fork.lift(x) for x in positions.ravel().tolist()])
        sch = merge.const_array(I, np.asarray(scheme_np).shape, [fork.lift(x) for x in np.asarray(scheme_np).ravel().tolist()])
        w = merge.const_array(I, (len(weights),), [float(x) for x in weights])
        res = I.call_function(real, [pos, sch, w, int(nb_elem), int(nb_rankings)])
        STATS.encoded.update(I.ctx.encoded)
        if I.ctx.obligations:
            s = harness.solver()
            cur = fork.CUR
            if cur is not None:
                s.add(*cur.ex.pre)
                s.add(*cur.conds)
            bad = merge.discharge_obligations(I, s)
            if bad:
                raise harness.HarnessError("index obligation of the cost kernel failed on a symbolic dataset: " + bad[0][0])
        out = np.empty(res.shape, dtype=object)
        for idx, p in res.indices():
            out[idx] = fork.wrap(merge.to_z3(I.ctx.heap.st[res.sid][p]))
        return fork.as_symarr(out)
    dispatch.__wrapped__ = real
    P._pairwise_cost_matrix_only = dispatch
    _installed["corankco.algorithms.pairwisebasedalgorithm._pairwise_cost_matrix_only"] = \
        "symbolic positions: executed by Engine M from the current source (merged ite terms); concrete: the real function"
