"""Common harness: statistics, solver wrapper, evidence, violations/replay, known findings, exit codes.

Exit codes of a check: 0 held on everything explored; 1 replayed violation not listed in
known_findings.json (prints VIOLATION line); 2 harness error (Unsupported construct, symbolic escape,
anchor not found); 3 inconclusive (unknown/timeout, counterexample that does not replay).
"""
import os, sys, json, time, copy, hashlib, subprocess, traceback, multiprocessing, collections, fractions
import z3

VERIF = os.path.dirname(os.path.dirname(os.path.abspath(__file__)))
REPO = os.environ.get("VF_REPO", "/repo")
OUT = os.path.join(VERIF, "out")
GUARD = "CORANKCO_VERIF"


class HarnessError(Exception):
    pass


class Inconclusive(Exception):
    pass


# ------------------------------------------------------------------ statistics (per process, mergeable)
class Stats:
    def __init__(self):
        self.q = collections.Counter()      # queries by kind and verdict: "property:unsat"
        self.solver_s = 0.0
        self.paths = 0
        self.states = 0
        self.transitions = 0
        self.validated = 0
        self.encoded = {}
        self.samples = []
        self.notes = collections.Counter()
        self.abandoned = collections.Counter()   # paths given up (reason -> count): the run is inconclusive unless a violation was replayed

    def merge(self, o):
        self.abandoned.update(o.abandoned)
        self.q.update(o.q)
        self.solver_s += o.solver_s
        self.paths += o.paths
        self.states += o.states
        self.transitions += o.transitions
        self.validated += o.validated
        self.encoded.update(o.encoded)
        for s in o.samples:
            if len(self.samples) < 12:
                self.samples.append(s)
        self.notes.update(o.notes)

    def sample(self, s, cap=6):
        if len(self.samples) < cap:
            self.samples.append(s)


STATS = Stats()


def fresh_stats():
    """reset the process-wide statistics object in place (used in forked workers)"""
    STATS.__init__()
    return STATS


def solver(timeout_ms=120000):
    s = z3.Solver()
    s.set("timeout", timeout_ms)
    return s


def check(s, kind, *extra):
    """s.check(*extra) with accounting; returns 'sat' | 'unsat' | 'unknown'"""
    t0 = time.time()
    r = str(s.check(*extra))
    STATS.solver_s += time.time() - t0
    STATS.q[f"{kind}:{r}"] += 1
    return r


def refute(s, kind, formula):
    """is pre(s) /\\ formula unsatisfiable?  returns (verdict, model or None)"""
    s.push()
    s.add(formula)
    r = check(s, kind)
    m = s.model() if r == "sat" else None
    s.pop()
    return r, m


def zval(m, e):
    """python value (int / Fraction / bool) of term e in model m"""
    v = m.eval(e, model_completion=True)
    if z3.is_int_value(v):
        return v.as_long()
    if z3.is_rational_value(v):
        return fractions.Fraction(v.numerator_as_long(), v.denominator_as_long())
    if z3.is_true(v):
        return True
    if z3.is_false(v):
        return False
    if z3.is_algebraic_value(v):
        a = v.approx(20)
        return fractions.Fraction(a.numerator_as_long(), a.denominator_as_long())
    raise HarnessError(f"cannot read model value {v}")


def jsonable(x):
    if isinstance(x, fractions.Fraction):
        return float(x) if x.denominator != 1 else int(x)
    if isinstance(x, (list, tuple)):
        return [jsonable(y) for y in x]
    if isinstance(x, (set, frozenset)):
        return sorted(jsonable(y) for y in x)
    if isinstance(x, dict):
        return {str(k): jsonable(v) for k, v in x.items()}
    if hasattr(x, "item") and not isinstance(x, (str, bytes)):
        try:
            return x.item()
        except Exception:
            pass
    if isinstance(x, (int, float, str, bool)) or x is None:
        return x
    return str(x)


# ------------------------------------------------------------------ parallel map
def _worker(args, in_child=True):
    func, item = args
    st = fresh_stats() if in_child else Stats()
    t0 = time.time()
    try:
        res = func(item)
        if time.time() - t0 > float(os.environ.get("VF_SLOW", "60")):
            print(f"SLOW-ITEM {time.time() - t0:.0f}s {getattr(func, '__name__', func)} {str(item)[:200]}", flush=True)
        return ("ok", res, copy.deepcopy(st) if in_child else st)
    except Inconclusive as e:
        return ("inconclusive", f"{item!r}: {e}", copy.deepcopy(st) if in_child else st)
    except BaseException as e:  # noqa
        return ("error", f"{item!r}: {type(e).__name__}: {e}\n{traceback.format_exc()}", copy.deepcopy(st) if in_child else st)


def pmap(func, items, workers=None, chunksize=1, problems=None):
    """run func(item) over items in forked workers; merges statistics; returns list of results.
    func must return a JSON-able result (typically a list of candidate violations)."""
    items = list(items)
    workers = workers or int(os.environ.get("VF_WORKERS", "16"))
    main_stats = STATS
    out = []
    if workers <= 1 or len(items) <= 1:
        it = (_worker((func, x), False) for x in items)
        pool = None
    else:
        ctx = multiprocessing.get_context("fork")
        pool = ctx.Pool(min(workers, len(items)))
        it = pool.imap_unordered(_worker, [(func, x) for x in items], chunksize)
    errors, inconcl = [], []
    try:
        for status, res, st in it:
            if st is not main_stats:
                main_stats.merge(st)
            if status == "ok":
                out.append(res)
            elif status == "inconclusive":
                inconcl.append(res)
            else:
                errors.append(res)
    finally:
        if pool is not None:
            pool.terminate()
            pool.join()
    if problems is not None:
        # the caller keeps the results of the items that finished and reports the others itself
        problems.extend([("error", e) for e in errors] + [("inconclusive", i) for i in inconcl])
        return out
    if errors:
        raise HarnessError("worker errors (%d), first: %s" % (len(errors), errors[0]))
    if inconcl:
        raise Inconclusive("%d inconclusive items, first: %s" % (len(inconcl), inconcl[0]))
    return out


# ------------------------------------------------------------------ a check run
class Run:
    def __init__(self, pid, tier, seed, level="model_checking"):
        self.pid, self.tier, self.seed, self.level = pid, tier, seed, level
        self.t0 = time.time()
        self.bounds = {}
        self.assumptions = []
        self.outside = []
        self.rule = ""
        self.candidates = []       # candidate violations (dict payloads)
        self.violations = 0
        self.known = 0
        self.unreproduced = 0
        self.exhaustive = None
        self.extra = {}
        self.part_problems = []

    @property
    def thorough(self):
        return self.tier == "thorough"

    def part(self, name, thunk):
        """run one part of a check; a harness error / inconclusive result of one part does not hide a violation found
        by another part (it is reported at the end if no violation was replayed)"""
        try:
            thunk()
        except Inconclusive as e:
            self.part_problems.append(("inconclusive", name, str(e)))
            print(f"PART-INCONCLUSIVE {self.pid}/{name}: {e}", flush=True)
        except Exception as e:  # noqa
            self.part_problems.append(("error", name, f"{type(e).__name__}: {str(e)[:2000]}"))
            print(f"PART-ERROR {self.pid}/{name}: {type(e).__name__}: {str(e)[:3000]}", flush=True)

    def pmap(self, name, func, items, **kw):
        def thunk():
            # candidates of the items that finished are kept even when other items of the same part failed
            probs = []
            self.add_candidates(pmap(func, items, problems=probs, **kw))
            errors = [x for k, x in probs if k == "error"]
            inconcl = [x for k, x in probs if k == "inconclusive"]
            if errors:
                raise HarnessError("worker errors (%d), first: %s" % (len(errors), errors[0]))
            if inconcl:
                raise Inconclusive("%d inconclusive items, first: %s" % (len(inconcl), inconcl[0]))
        self.part(name, thunk)

    def candidate(self, payload):
        """payload: dict with 'signature' (dict), 'what' (str), and whatever replay needs"""
        self.candidates.append(payload)

    def add_candidates(self, lists):
        for l in lists:
            for p in (l or []):
                self.candidates.append(p)

    # ---- triage
    def _known(self):
        path = os.path.join(VERIF, "known_findings.json")
        if not os.path.exists(path):
            return []
        return [f for f in json.load(open(path)).get("findings", []) if f.get("property") == self.pid]

    def triage(self, max_replays=40):
        """replay candidates against the real library; print KNOWN-FINDING / VIOLATION lines"""
        known = self._known()
        seen_sig = collections.Counter()
        printed_known = set()
        os.makedirs(os.path.join(OUT, "replay"), exist_ok=True)
        for p in self.candidates:
            p = jsonable(p)
            p["property"] = self.pid
            sig = json.dumps(p.get("signature", {}), sort_keys=True)
            seen_sig[sig] += 1
            if seen_sig[sig] > 3 or sum(1 for _ in seen_sig) > max_replays:
                continue     # same class already replayed three times
            h = hashlib.sha1(json.dumps(p, sort_keys=True).encode()).hexdigest()[:10]
            path = os.path.join(OUT, "replay", f"{self.pid}-{h}.json")
            json.dump(p, open(path, "w"), indent=1, sort_keys=True)
            ok, detail = run_replay(path)
            if ok is None:
                self.unreproduced += 1
                print(f"UNREPRODUCED property={self.pid} {p.get('what', '')} :: {detail}", flush=True)
                continue
            if ok is False:
                self.unreproduced += 1
                print(f"UNREPRODUCED property={self.pid} {p.get('what', '')} :: {detail}", flush=True)
                continue
            match = None
            for f in known:
                if all(p.get("signature", {}).get(k) == v for k, v in f.get("match", {}).items()):
                    match = f
                    break
            if match is not None:
                self.known += 1
                if match["id"] not in printed_known:
                    printed_known.add(match["id"])
                    print(f"KNOWN-FINDING: property={self.pid} {match['what']}", flush=True)
            else:
                self.violations += 1
                print(f"VIOLATION property={self.pid} replay={path}", flush=True)
                print(f"  what: {p.get('what', '')}\n  replay: {detail}", flush=True)

    # ---- evidence
    def write_evidence(self, status):
        st = STATS
        qtot = sum(st.q.values())
        qun = sum(v for k, v in st.q.items() if k.endswith(":unsat"))
        cov = {
            "states": max(1, st.states or st.paths or qtot),
            "transitions": max(1, st.transitions or qtot),
            "traces_validated_against_impl": st.validated,
            "samples": jsonable(st.samples) or [{"note": "no sample recorded"}],
            "evaluations": max(1, qtot),
            "distinct_nontrivial": max(0, qun + sum(v for k, v in st.q.items() if k.endswith(":sat"))),
            "rule": self.rule + " | counted as distinct_nontrivial: solver queries whose verdict is sat/unsat (trivially true checks and "
                    "all-SAT model counts excluded); queries are distinct by construction (one per work item x path x obligation)",
            "functions_encoded": st.encoded,
            "bounds": self.bounds,
            "paths_explored": st.paths,
            "queries_by_kind_and_verdict": dict(sorted(st.q.items())),
            "solver_time_s": round(st.solver_s, 3),
            "outside_the_bounds": self.outside,
            "status": status,
            "known_findings_matched": self.known,
            "unreproduced_counterexamples": self.unreproduced,
            "notes": dict(st.notes),
        }
        if self.exhaustive is not None:
            cov["exhaustive"] = self.exhaustive
        cov.update(self.extra)
        ev = {
            "property_id": self.pid, "tier": self.tier, "seed": self.seed, "level": self.level,
            "coverage": cov, "assumptions": self.assumptions,
            "wall_s": round(time.time() - self.t0, 3), "violations": self.violations,
        }
        os.makedirs(os.path.join(VERIF, "evidence"), exist_ok=True)
        tmp = os.path.join(VERIF, "evidence", f"{self.pid}.json.tmp")
        json.dump(ev, open(tmp, "w"), indent=1, sort_keys=True)
        os.replace(tmp, os.path.join(VERIF, "evidence", f"{self.pid}.json"))


def run_replay(path, timeout=600):
    """replay in a fresh process against the unpatched library (JIT enabled).
    returns (True, detail) reproduced, (False, detail) not reproduced, (None, detail) replay failed"""
    env = dict(os.environ)
    env.pop("NUMBA_DISABLE_JIT", None)
    env["PYTHONPATH"] = VERIF + os.pathsep + REPO
    env["VF_REPLAY"] = "1"
    try:
        r = subprocess.run([sys.executable, "-m", "vf.replay", path], cwd=VERIF, env=env, capture_output=True,
                           text=True, timeout=timeout)
    except subprocess.TimeoutExpired:
        return None, "replay timed out"
    out = (r.stdout or "").strip().splitlines()
    detail = out[-1] if out else (r.stderr or "").strip()[-400:]
    if r.returncode == 0:
        return True, detail
    if r.returncode == 4:
        return False, detail
    return None, f"replay harness failed rc={r.returncode}: {detail} {(r.stderr or '')[-400:]}"


def main_wrapper(pid, tier, seed, body):
    run = Run(pid, tier, seed)
    status = "ok"
    code = 0
    try:
        body(run)
        run.triage()
        if STATS.abandoned:
            run.part_problems.append(("inconclusive", "paths", "; ".join(f"{n} path(s) abandoned: {r}" for r, n in STATS.abandoned.items())))
            print(f"PATHS-ABANDONED {pid}: {dict(STATS.abandoned)}", flush=True)
        if run.violations:
            status, code = "violation", 1
        elif any(k == "error" for k, _, _ in run.part_problems):
            status, code = "harness error: " + "; ".join(f"{n}: {m[:300]}" for k, n, m in run.part_problems if k == "error"), 2
        elif run.part_problems:
            status, code = "inconclusive: " + "; ".join(f"{n}: {m[:300]}" for k, n, m in run.part_problems), 3
        elif run.unreproduced:
            status, code = "inconclusive: counterexample(s) did not replay", 3
    except Inconclusive as e:
        status, code = f"inconclusive: {e}", 3
        print(f"INCONCLUSIVE property={pid}: {e}", flush=True)
    except Exception as e:  # noqa
        status, code = f"harness error: {type(e).__name__}: {e}", 2
        traceback.print_exc()
        print(f"HARNESS-ERROR property={pid}: {type(e).__name__}: {e}", flush=True)
    run.write_evidence(status)
    st = STATS
    print(f"[{pid}/{tier}] status={status} queries={sum(st.q.values())} {dict(st.q)} paths={st.paths} "
          f"solver={st.solver_s:.1f}s wall={time.time() - run.t0:.1f}s", flush=True)
    return code
