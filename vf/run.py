"""Entry point: python -m vf.run <PID> [--tier quick|thorough]"""
import os, sys, argparse, importlib


def main():
    ap = argparse.ArgumentParser()
    ap.add_argument("pid")
    ap.add_argument("--tier", default=os.environ.get("VERIF_TIER", "quick"))
    a = ap.parse_args()
    tier = a.tier if a.tier in ("quick", "thorough") else "quick"
    seed = int(os.environ.get("VERIF_SEED", "0") or 0)
    # the symbolic run interprets / natively executes the kernels' Python source
    os.environ["NUMBA_DISABLE_JIT"] = "1"
    os.environ.setdefault("CORANKCO_VERIF", "1")
    import faulthandler, signal
    faulthandler.register(signal.SIGUSR1, all_threads=True)
    from vf import harness
    mod = importlib.import_module("vf.checks." + a.pid.lower())
    sys.exit(harness.main_wrapper(a.pid, tier, seed, mod.run))


if __name__ == "__main__":
    main()
