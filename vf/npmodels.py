"""numpy / builtin models for the merge-mode interpreter (prototype)."""
import numpy, builtins, itertools
import z3
from vf.merge import Arr, is_sym, as_cond, z_ite, to_z3, Unsupported, b_and, b_or


def m_zeros(I, shape, dtype=float, **kw):
    if isinstance(shape, int):
        shape = (shape,)
    fill = 0 if dtype in (int, numpy.int32, numpy.int64) else 0.0
    return Arr.new(I.ctx.heap, shape, fill)


def m_len(I, x):
    if isinstance(x, Arr):
        return x.shape[0]
    from vf.mstr import MStr
    if isinstance(x, MStr):
        return x.length
    return len(x)


def m_range(I, *a):
    if any(is_sym(x) for x in a):
        raise Unsupported("symbolic range")
    return range(*a)


def cells(I, a):
    return [I.ctx.heap.st[a.sid][pos] for _, pos in a.indices()]


def m_max(I, *a, **kw):
    xs = list(a) if len(a) > 1 else (cells(I, a[0]) if isinstance(a[0], Arr) else list(a[0]))
    res = xs[0]
    for x in xs[1:]:
        if not is_sym(res) and not is_sym(x):
            res = max(res, x)
        else:
            res = I.ite(as_cond(I.cmp_ge(x, res)), x, res)
    return res


def m_min(I, *a, **kw):
    xs = list(a) if len(a) > 1 else (cells(I, a[0]) if isinstance(a[0], Arr) else list(a[0]))
    res = xs[0]
    for x in xs[1:]:
        if not is_sym(res) and not is_sym(x):
            res = min(res, x)
        else:
            res = I.ite(as_cond(I.cmp_ge(res, x)), x, res)
    return res


def m_sum_bool(I, a, **kw):
    xs = cells(I, a) if isinstance(a, Arr) else list(a)
    tot = 0
    for x in xs:
        if is_sym(x) and z3.is_bool(x):
            x = z3.If(x, 1, 0)
        elif isinstance(x, bool):
            x = int(x)
        tot = tot + x
    return tot


def m_vdot(I, a, b):
    xs = cells(I, a) if isinstance(a, Arr) else list(a)
    ys = cells(I, b) if isinstance(b, Arr) else list(b)
    assert len(xs) == len(ys)
    tot = 0
    for x, y in zip(xs, ys):
        tot = tot + I.binop(__import__("ast").Mult(), x, y)
    return tot


def m_fill(I, a, v):
    st = I.ctx.heap.st[a.sid]
    for _, pos in a.indices():
        st[pos] = v


def m_int(I, x):
    if is_sym(x):
        if z3.is_real(x):
            return z3.If(x >= 0, z3.ToInt(x), -z3.ToInt(-x))
        return x
    return int(x)


def m_round(I, x, nd=None):
    if is_sym(x):
        if nd is not None:
            raise Unsupported("round with ndigits on a symbolic value")
        from vf import fork
        return fork.round_half_even(x)
    return round(x) if nd is None else round(x, nd)


def m_abs(I, x):
    if is_sym(x):
        return z3.If(x >= 0, x, -x)
    return abs(x)


def m_float(I, x=0.0):
    if is_sym(x):
        return z3.ToReal(x) if z3.is_int(x) else x
    return float(x)


def m_asarray(I, x, **kw):
    if isinstance(x, Arr):
        return x
    if isinstance(x, (list, tuple)):
        return Arr.new(I.ctx.heap, (len(x),), list(x))
    raise Unsupported("asarray")


def m_ones(I, shape, dtype=float, **kw):
    if isinstance(shape, int):
        shape = (shape,)
    return Arr.new(I.ctx.heap, shape, 1 if dtype in (int, numpy.int32, numpy.int64) else 1.0)


def m_full(I, shape, fill_value, dtype=None, **kw):
    if isinstance(shape, int):
        shape = (shape,)
    return Arr.new(I.ctx.heap, shape, fill_value)


def m_arange(I, *a, **kw):
    if any(is_sym(x) for x in a):
        raise Unsupported("symbolic arange")
    vals = list(range(*[int(x) for x in a]))
    return Arr.new(I.ctx.heap, (len(vals),), vals)


def m_copy(I, a, **kw):
    if isinstance(a, Arr):
        return Arr.new(I.ctx.heap, a.shape, cells(I, a))
    return a.copy() if hasattr(a, "copy") else a


def m_sum(I, xs, start=0):
    tot = start
    for x in (cells(I, xs) if isinstance(xs, Arr) else list(xs)):
        if is_sym(x) and z3.is_bool(x):
            x = z3.If(x, 1, 0)
        tot = I.binop(__import__("ast").Add(), tot, x)
    return tot


def m_any(I, xs):
    return b_or(*[as_cond(x) for x in (cells(I, xs) if isinstance(xs, Arr) else list(xs))])


def m_all(I, xs):
    return b_and(*[as_cond(x) for x in (cells(I, xs) if isinstance(xs, Arr) else list(xs))])


def m_np_abs(I, a):
    if isinstance(a, Arr):
        return I.arr_map(lambda x: m_abs(I, x), a)
    return m_abs(I, a)


def m_np_where(I, c, a=None, b=None):
    if a is None or b is None:
        raise Unsupported("np.where with one argument on symbolic data")
    return I.arr_map(lambda cc, x, y: I.ite(as_cond(cc), x, y) if as_cond(cc) not in (True, False) else (x if as_cond(cc) else y), c, a, b)


def m_np_minimum(I, a, b):
    return I.arr_map(lambda x, y: m_min(I, x, y), a, b) if isinstance(a, Arr) or isinstance(b, Arr) else m_min(I, a, b)


def m_np_maximum(I, a, b):
    return I.arr_map(lambda x, y: m_max(I, x, y), a, b) if isinstance(a, Arr) or isinstance(b, Arr) else m_max(I, a, b)


def m_arr_copy(I, a, *args, **kw):
    return m_copy(I, a)


def m_arr_sum(I, a, *args, **kw):
    return m_sum(I, a)


def m_arr_max(I, a, *args, **kw):
    return m_max(I, a)


def m_arr_min(I, a, *args, **kw):
    return m_min(I, a)


def m_arr_flatten(I, a, *args, **kw):
    c = cells(I, a)
    return Arr.new(I.ctx.heap, (len(c),), c)


def install(I):
    import ast
    I.cmp_ge = lambda a, b: I.cmp(ast.GtE(), a, b)
    M = I.models
    from vf import fork
    for f in (numpy.zeros, fork.obj_zeros):
        M[f] = m_zeros
    M[builtins.len] = m_len
    M[builtins.range] = m_range
    M[builtins.max] = m_max
    M[builtins.min] = m_min
    M[numpy.max] = m_max
    M[numpy.amin] = m_min
    M[numpy.sum] = m_sum_bool
    M[numpy.count_nonzero] = m_sum_bool
    M[numpy.vdot] = m_vdot
    M[builtins.int] = m_int
    M[builtins.round] = m_round
    M[builtins.abs] = m_abs
    M[builtins.float] = m_float
    M[numpy.asarray] = m_asarray
    M["arr.fill"] = m_fill
    M["arr.copy"] = m_arr_copy
    M["arr.sum"] = m_arr_sum
    M["arr.max"] = m_arr_max
    M["arr.min"] = m_arr_min
    M["arr.flatten"] = m_arr_flatten
    M["arr.ravel"] = m_arr_flatten
    M[numpy.ones] = m_ones
    M[numpy.full] = m_full
    M[numpy.arange] = m_arange
    M[numpy.copy] = m_copy
    M[numpy.abs] = m_np_abs
    M[numpy.where] = m_np_where
    M[numpy.minimum] = m_np_minimum
    M[numpy.maximum] = m_np_maximum
    M[numpy.min] = m_min
    M[numpy.amax] = m_max
    M[builtins.sum] = m_sum
    M[builtins.any] = m_any
    M[builtins.all] = m_all
