"""numpy / builtin models for the merge-mode interpreter (prototype)."""
import numpy, builtins, itertools
import z3
from vf.merge import Arr, is_sym, as_cond, z_ite, to_z3, Unsupported, b_and, b_or


def m_zeros(I, shape, dtype=float, **kw):
    if isinstance(shape, int):
        shape = (shape,)
    fill = 0 if dtype in (int, numpy.int32, numpy.int64) else 0.0
    return Arr.new(I.ctx.heap, shape, fill)


def m_len(I, x):
    if isinstance(x, Arr):
        return x.shape[0]
    from vf.mstr import MStr
    if isinstance(x, MStr):
        return x.length
    return len(x)


def m_range(I, *a):
    if any(is_sym(x) for x in a):
        raise Unsupported("symbolic range")
    return range(*a)


def cells(I, a):
    return [I.ctx.heap.st[a.sid][pos] for _, pos in a.indices()]


def m_max(I, *a, **kw):
    xs = list(a) if len(a) > 1 else (cells(I, a[0]) if isinstance(a[0], Arr) else list(a[0]))
    res = xs[0]
    for x in xs[1:]:
        if not is_sym(res) and not is_sym(x):
            res = max(res, x)
        else:
            res = I.ite(as_cond(I.cmp_ge(x, res)), x, res)
    return res


def m_min(I, *a, **kw):
    xs = list(a) if len(a) > 1 else (cells(I, a[0]) if isinstance(a[0], Arr) else list(a[0]))
    res = xs[0]
    for x in xs[1:]:
        if not is_sym(res) and not is_sym(x):
            res = min(res, x)
        else:
            res = I.ite(as_cond(I.cmp_ge(res, x)), x, res)
    return res


def m_sum_bool(I, a, **kw):
    xs = cells(I, a) if isinstance(a, Arr) else list(a)
    tot = 0
    for x in xs:
        if is_sym(x) and z3.is_bool(x):
            x = z3.If(x, 1, 0)
        elif isinstance(x, bool):
            x = int(x)
        tot = tot + x
    return tot


def m_vdot(I, a, b):
    xs = cells(I, a) if isinstance(a, Arr) else list(a)
    ys = cells(I, b) if isinstance(b, Arr) else list(b)
    assert len(xs) == len(ys)
    tot = 0
    for x, y in zip(xs, ys):
        tot = tot + I.binop(__import__("ast").Mult(), x, y)
    return tot


def m_fill(I, a, v):
    st = I.ctx.heap.st[a.sid]
    for _, pos in a.indices():
        st[pos] = v


def m_int(I, x):
    if is_sym(x):
        if z3.is_real(x):
            return z3.If(x >= 0, z3.ToInt(x), -z3.ToInt(-x))
        return x
    return int(x)


def m_round(I, x, nd=None):
    if is_sym(x):
        if nd is not None:
            raise Unsupported("round with ndigits on a symbolic value")
        from vf import fork
        return fork.round_half_even(x)
    return round(x) if nd is None else round(x, nd)


def m_abs(I, x):
    if is_sym(x):
        return z3.If(x >= 0, x, -x)
    return abs(x)


def m_float(I, x=0.0):
    if is_sym(x):
        return z3.ToReal(x) if z3.is_int(x) else x
    return float(x)


def m_asarray(I, x, **kw):
    if isinstance(x, Arr):
        return x
    if isinstance(x, (list, tuple)):
        return Arr.new(I.ctx.heap, (len(x),), list(x))
    raise Unsupported("asarray")


def install(I):
    import ast
    I.cmp_ge = lambda a, b: I.cmp(ast.GtE(), a, b)
    M = I.models
    from vf import fork
    for f in (numpy.zeros, fork.obj_zeros):
        M[f] = m_zeros
    M[builtins.len] = m_len
    M[builtins.range] = m_range
    M[builtins.max] = m_max
    M[builtins.min] = m_min
    M[numpy.max] = m_max
    M[numpy.amin] = m_min
    M[numpy.sum] = m_sum_bool
    M[numpy.count_nonzero] = m_sum_bool
    M[numpy.vdot] = m_vdot
    M[builtins.int] = m_int
    M[builtins.round] = m_round
    M[builtins.abs] = m_abs
    M[builtins.float] = m_float
    M[numpy.asarray] = m_asarray
    M["arr.fill"] = m_fill
