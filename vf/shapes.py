"""Enumeration of dataset shapes (declared enumeration, [P] in DESIGN.md) and construction of real objects."""
import itertools, random
from vf import spec


def rankings_over(n, allow_empty=False):
    """all rankings with ties over the non-empty (optionally also the empty) subsets of range(n), as level vectors"""
    out = []
    for k in range(0 if allow_empty else 1, n + 1):
        for sub in itertools.combinations(range(n), k):
            for part in spec.ordered_partitions(sub):
                out.append(spec.levels_of(part, n))
    return out


def datasets(n, m, cover=True, allow_empty=False, complete=None):
    """all m-tuples of rankings over range(n); cover: every element ranked at least once"""
    rk = rankings_over(n, allow_empty)
    if complete:
        rk = [r for r in rk if -1 not in r]
    for ds in itertools.product(rk, repeat=m):
        if cover and any(all(r[e] == -1 for r in ds) for e in range(n)):
            continue
        yield ds


def raw(lvs, names):
    """level vectors -> raw list of rankings [[{name,...},...],...]"""
    return [[{names[e] for e in b} for b in spec.buckets_of(lv)] for lv in lvs]


def raw_json(lvs, names):
    return [[sorted((names[e] for e in b), key=lambda x: (str(type(x)), str(x))) for b in spec.buckets_of(lv)] for lv in lvs]


def from_json(rj):
    return [[set(b) for b in r] for r in rj]


def build(lvs, names=None):
    from corankco.dataset import Dataset
    n = len(lvs[0])
    names = names or list(range(1, n + 1))
    return Dataset.from_raw_list(raw(lvs, names))


def ids_of(dataset, names):
    """harness id e (index in names) -> the dataset's own int id"""
    from corankco.element import Element
    return [dataset.mapping_elem_id[Element(nm)] for nm in names]


def ranking_levels(ranking, names):
    """real Ranking -> level vector over harness ids (-1 = absent); raises KeyError on foreign elements"""
    idx = {}
    for i, nm in enumerate(names):
        idx[(type(nm), nm)] = i
    lv = [-1] * len(names)
    for lev, bucket in enumerate(ranking):
        for el in bucket:
            lv[idx[(el.type, el.value)]] = lev
    return tuple(lv)


NAMINGS3 = [[1, 2, 3], [3, 1, 2], ["b", "a", "c"]]


def sample(seq, k, seed):
    seq = list(seq)
    if len(seq) <= k:
        return seq
    rnd = random.Random(seed)
    return rnd.sample(seq, k)
