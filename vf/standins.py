"""Solver stand-ins (environment stubs; each is part of the claim).

`pulp_standin` and `cplex_standin` are module-like objects offering exactly the API surface corankco uses.  They
record the 0/1 model built by the real code.  `solve` enumerates the feasible assignments of the recorded
constraints (all-SAT with z3 over the concrete constraint rows) and returns ANY assignment that minimises the
recorded objective: in fork mode each candidate is one path with "it is optimal" added to the path condition; the
solution pool is exactly the set of minimisers.  In concrete mode (replays) the objective is numeric and the
minimiser is picked by a pinned index (default: first in lexicographic order).
"""
import itertools, types
import z3
from vf import fork, harness
from vf.harness import STATS

PINNED = []          # concrete mode: pinned choices (consumed in order)


class ConcreteCtx:
    def choose(self, n, label="choice"):
        if PINNED:
            return min(PINNED.pop(0), n - 1)
        return 0


def _ctx():
    return fork.CUR if fork.CUR is not None else ConcreteCtx()


_FEAS_CACHE = {}


def enumerate_feasible(varnames, constraints):
    """varnames: list of str; constraints: list of (dict name->coef, sense in 'E','L','G', rhs) with concrete numbers.
    returns sorted list of tuples of 0/1 in varnames order"""
    key = (tuple(varnames), tuple((tuple(sorted(c.items())), s, r) for c, s, r in constraints))
    if key in _FEAS_CACHE:
        return _FEAS_CACHE[key]
    zs = {v: z3.Int("v_" + v) for v in varnames}
    s = z3.Solver()
    for v in zs.values():
        s.add(v >= 0, v <= 1)
    for coefs, sense, rhs in constraints:
        lhs = z3.Sum([zs[v] * z3.RealVal(str(c)) if isinstance(c, float) and c != int(c) else zs[v] * int(c) for v, c in coefs.items()]) \
            if coefs else z3.IntVal(0)
        rhs_ = int(rhs) if rhs == int(rhs) else z3.RealVal(str(rhs))
        s.add(lhs == rhs_ if sense == "E" else lhs <= rhs_ if sense == "L" else lhs >= rhs_)
    sols = []
    while True:
        r = s.check()
        if str(r) != "sat":
            if str(r) != "unsat":
                raise harness.Inconclusive("all-SAT of the recorded ILP constraints: unknown")
            break
        m = s.model()
        sol = tuple(m.eval(zs[v], model_completion=True).as_long() for v in varnames)
        sols.append(sol)
        s.add(z3.Or(*[zs[v] != x for v, x in zip(varnames, sol)]))
        if len(sols) > 5000:
            raise harness.Inconclusive("more than 5000 feasible assignments")
    sols.sort()
    _FEAS_CACHE[key] = sols
    STATS.q["ilp-allsat:models"] += len(sols)
    return sols


def _objective_values(varnames, obj, sols):
    """objective (dict name -> coef, possibly symbolic) evaluated on every feasible assignment"""
    vals = []
    for sol in sols:
        tot = 0.0
        for v, x in zip(varnames, sol):
            if x and v in obj:
                tot = tot + obj[v] * x
        vals.append(tot)
    return vals


def _is_sym(x):
    return isinstance(x, fork.SNum)


def pick_optimum(vals, label):
    """index of an arbitrary minimiser"""
    ctx = _ctx()
    if any(_is_sym(v) for v in vals):
        i = ctx.choose(len(vals), label)
        ctx.assume(z3.And(*[fork.term(vals[i]) <= fork.term(v) for j, v in enumerate(vals) if j != i]) if len(vals) > 1 else True)
        return i
    best = min(vals)
    mins = [i for i, v in enumerate(vals) if abs(v - best) <= 1e-9]
    return mins[ctx.choose(len(mins), label)]


def all_optima(vals):
    """indices of all minimisers (forks on comparisons in symbolic mode)"""
    if not any(_is_sym(v) for v in vals):
        best = min(vals)
        return [i for i, v in enumerate(vals) if abs(v - best) <= 1e-9]
    i = pick_optimum(vals, "pool-anchor")
    res = []
    for j, v in enumerate(vals):
        if j == i or bool(v == vals[i]):
            res.append(j)
    return res


# ------------------------------------------------------------------ pulp
class LpAffine:
    def __init__(self, terms=None, const=0):
        self.terms = dict(terms or {})     # LpVar -> coef
        self.const = const

    def _lift(o):
        if isinstance(o, LpAffine):
            return o
        if isinstance(o, LpVar):
            return LpAffine({o: 1})
        return LpAffine({}, o)
    _lift = staticmethod(_lift)

    def __add__(self, o):
        o = LpAffine._lift(o)
        t = dict(self.terms)
        for k, v in o.terms.items():
            t[k] = t[k] + v if k in t else v
        return LpAffine(t, self.const + o.const)
    __radd__ = __add__

    def __sub__(self, o):
        return self + (LpAffine._lift(o) * -1)

    def __rsub__(self, o):
        return LpAffine._lift(o) + (self * -1)

    def __neg__(self):
        return self * -1

    def __mul__(self, k):
        if isinstance(k, (LpAffine, LpVar)):
            raise TypeError("non-linear")
        return LpAffine({v: c * k for v, c in self.terms.items()}, self.const * k)
    __rmul__ = __mul__

    def __le__(self, o):
        return LpConstraint(self - o, "L")

    def __ge__(self, o):
        return LpConstraint(self - o, "G")

    def __eq__(self, o):
        return LpConstraint(self - o, "E")

    __hash__ = None

    def value(self):
        if not self.terms:
            return None      # as real PuLP does for an objective without variables (validated against PuLP+CBC)
        tot = self.const
        for v, c in self.terms.items():
            if v.varValue is None:
                return None
            tot = tot + c * v.varValue
        return tot


class LpVar:
    def __init__(self, name, lowBound=None, upBound=None, cat="Continuous"):
        self.name, self.lowBound, self.upBound, self.cat = name, lowBound, upBound, cat
        self.varValue = None
        if cat != "Binary":
            raise harness.HarnessError("pulp stand-in models binary variables only")

    def value(self):
        return self.varValue

    def __hash__(self):
        return id(self)

    def __add__(self, o):
        return LpAffine({self: 1}) + o
    __radd__ = __add__

    def __sub__(self, o):
        return LpAffine({self: 1}) - o

    def __rsub__(self, o):
        return o - LpAffine({self: 1})

    def __neg__(self):
        return LpAffine({self: -1})

    def __mul__(self, k):
        return LpAffine({self: 1}) * k
    __rmul__ = __mul__

    def __le__(self, o):
        return LpAffine({self: 1}) <= o

    def __ge__(self, o):
        return LpAffine({self: 1}) >= o

    def __eq__(self, o):
        return LpAffine({self: 1}) == o


class LpConstraint:
    def __init__(self, expr, sense):
        self.expr, self.sense = expr, sense


class LpProblem:
    def __init__(self, name="NoName", sense=1):
        self.name, self.sense = name, sense
        self.constraints = []
        self.objective = None
        self.status = 0

    def __iadd__(self, o):
        if isinstance(o, LpConstraint):
            self.constraints.append(o)
        elif isinstance(o, (LpAffine, LpVar)):
            self.objective = LpAffine._lift(o)
        elif isinstance(o, (int, float)):
            self.objective = LpAffine({}, o)
        else:
            raise harness.HarnessError(f"pulp stand-in: cannot add {type(o)}")
        return self

    def variables(self):
        seen = {}
        for c in self.constraints:
            for v in c.expr.terms:
                seen[v.name] = v
        if self.objective is not None:
            for v in self.objective.terms:
                seen[v.name] = v
        return [seen[k] for k in sorted(seen)]

    def solve(self, solver=None):
        if self.sense != 1:
            raise harness.HarnessError("pulp stand-in: minimisation only")
        vs = self.variables()
        names = [v.name for v in vs]
        cons = []
        for c in self.constraints:
            coefs = {v.name: k for v, k in c.expr.terms.items() if k != 0}
            for k in coefs.values():
                if _is_sym(k):
                    raise harness.HarnessError("symbolic coefficient in a constraint row")
            cons.append((coefs, c.sense, -c.expr.const))
        sols = enumerate_feasible(names, cons)
        if not sols:
            self.status = -1
            return -1
        obj = {v.name: k for v, k in (self.objective.terms.items() if self.objective else [])}
        vals = _objective_values(names, obj, sols)
        i = pick_optimum(vals, "pulp-optimum")
        for v, x in zip(vs, sols[i]):
            v.varValue = float(x)
        self.status = 1
        STATS.notes["pulp stand-in solves"] += 1
        return 1


def lpSum(xs):
    tot = LpAffine()
    for x in xs:
        tot = tot + x
    return tot


pulp_standin = types.SimpleNamespace(
    LpVariable=LpVar, LpProblem=LpProblem, lpSum=lpSum, LpMinimize=1, LpMaximize=-1,
    PULP_CBC_CMD=lambda **kw: None, LpAffineExpression=LpAffine, __name__="pulp (stand-in)")


# ------------------------------------------------------------------ cplex
class _Sink:
    """accepts any attribute chain and .set(...) calls (solver parameters have no effect on the optimum set)"""
    def __getattr__(self, name):
        if name.startswith("__"):
            raise AttributeError(name)
        s = _Sink()
        object.__setattr__(self, name, s)
        return s

    def set(self, *a, **k):
        return None

    def __call__(self, *a, **k):
        return None


class _Vars:
    def __init__(self, p):
        self.p = p

    def add(self, obj=None, lb=None, ub=None, types="", names=None):
        n = len(names)
        if not (len(obj) == n and len(lb) == n and len(ub) == n and len(types) == n):
            raise CplexError("variables.add: inconsistent argument lengths")
        if set(types) - {"B"} or any(x != 0.0 for x in lb) or any(x != 1.0 for x in ub):
            raise harness.HarnessError("cplex stand-in models binary variables only")
        if len(set(names)) != n:
            raise CplexError("duplicate variable names")
        self.p.names += list(names)
        self.p.obj += list(obj)


class _Rows:
    def __init__(self, p):
        self.p = p

    def add(self, lin_expr=None, senses="", rhs=None, names=None):
        k = len(lin_expr)
        if not (len(senses) == k and len(rhs) == k and (names is None or len(names) == k)):
            raise CplexError(f"linear_constraints.add: inconsistent lengths rows={k} senses={len(senses)} rhs={len(rhs)} "
                             f"names={len(names) if names is not None else None}")
        known = set(self.p.names)
        for (vs, cs), se, r in zip(lin_expr, senses, rhs):
            if len(vs) != len(cs):
                raise CplexError("row with different numbers of variables and coefficients")
            coefs = {}
            for v, c in zip(vs, cs):
                if v not in known:
                    raise CplexError(f"unknown variable {v}")
                coefs[v] = coefs.get(v, 0) + c
            if se not in "ELG":
                raise CplexError("bad sense")
            self.p.cons.append((coefs, se, r))


class CplexError(Exception):
    pass


class _Pool:
    def __init__(self, p):
        self.p = p

    def get_num(self):
        return len(self.p.pool)

    def get_values(self, i):
        return [float(x) for x in self.p.pool[i]]


class _Solution:
    def __init__(self, p):
        self.p = p
        self.pool = _Pool(p)

    def get_values(self):
        if self.p.sol is None:
            raise CplexError("no solution exists")
        return [float(x) for x in self.p.sol]

    def get_objective_value(self):
        return self.p.objval


class _Objective:
    def __init__(self, p):
        self.p = p
        self.sense = types.SimpleNamespace(minimize=1, maximize=-1)

    def set_sense(self, s):
        self.p.sense = s


class Cplex:
    def __init__(self):
        self.names, self.obj, self.cons = [], [], []
        self.sense = 1
        self.sol, self.pool, self.objval = None, [], None
        self.variables = _Vars(self)
        self.linear_constraints = _Rows(self)
        self.solution = _Solution(self)
        self.objective = _Objective(self)
        self.parameters = _Sink()

    def set_results_stream(self, *a):
        pass
    set_log_stream = set_error_stream = set_warning_stream = set_results_stream

    def _prepare(self):
        if self.sense != 1:
            raise harness.HarnessError("cplex stand-in: minimisation only")
        sols = enumerate_feasible(self.names, self.cons)
        if not sols:
            raise CplexError("infeasible model")
        vals = _objective_values(self.names, dict(zip(self.names, self.obj)), sols)
        return sols, vals

    def solve(self):
        sols, vals = self._prepare()
        i = pick_optimum(vals, "cplex-optimum")
        self.sol, self.objval = sols[i], vals[i]
        STATS.notes["cplex stand-in solves"] += 1

    def populate_solution_pool(self):
        sols, vals = self._prepare()
        idx = all_optima(vals)
        self.pool = [sols[i] for i in idx]
        self.sol, self.objval = sols[idx[0]], vals[idx[0]]
        STATS.notes["cplex stand-in pools"] += 1


cplex_standin = types.SimpleNamespace(Cplex=Cplex, __name__="cplex (stand-in)", exceptions=types.SimpleNamespace(CplexError=CplexError))


def install(cplex_present=True):
    import corankco.algorithms.exact.exactalgorithmpulp as EP
    import corankco.algorithms.exact.exactalgorithmcplex as EC
    EP.pulp = pulp_standin
    if cplex_present:
        EC.cplex = cplex_standin
    elif hasattr(EC, "cplex"):
        del EC.cplex


def uninstall_pulp():
    import corankco.algorithms.exact.exactalgorithmpulp as EP
    import pulp
    EP.pulp = pulp
