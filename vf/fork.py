"""Engine F: native execution of corankco's real glue code on z3 proxy numbers, depth-first exploration of all
feasible paths by re-execution with a decision prefix.

SNum / SBool wrap z3 arithmetic / boolean terms.  bool(SBool) asks the solver which outcomes are feasible
under the current path condition; if both are, one is taken and the other queued.  A symbolic value that
would escape into C code (float(), int(), hash(), index()) raises SymbolicEscape (harness error).
"""
import fractions, math, time
import numpy as np
import z3
from vf import harness
from vf.harness import STATS, HarnessError, Inconclusive


class SymbolicEscape(HarnessError):
    pass


class _Infeasible(BaseException):
    pass


class Abandon(BaseException):
    """the current path is given up (not infeasible): exploration goes on with the other paths, the reason is counted in
    STATS.abandoned and makes the run inconclusive unless a violation is replayed"""


class PathLimit(Inconclusive):
    pass


def real_of_float(x):
    """exact rational for the shortest decimal repr of a float (0.001 -> 1/1000); dyadic values are exact"""
    if x != x or x in (float("inf"), float("-inf")):
        raise HarnessError("nan/inf penalty is outside the bounds")
    return z3.RealVal(str(fractions.Fraction(repr(float(x)))))


def lift(x):
    """python / numpy number or proxy -> z3 term"""
    if isinstance(x, (SNum, SBool)):
        return x.e
    if isinstance(x, z3.ExprRef):
        return x
    if isinstance(x, (bool, np.bool_)):
        return z3.BoolVal(bool(x))
    if isinstance(x, (int, np.integer)):
        return z3.IntVal(int(x))
    if isinstance(x, (float, np.floating)):
        return real_of_float(float(x))
    if isinstance(x, fractions.Fraction):
        return z3.RealVal(str(x))
    raise HarnessError(f"cannot lift {type(x)} into the solver")


def wrap(e):
    if isinstance(e, z3.ExprRef):
        if z3.is_bool(e):
            e = z3.simplify(e)
            if z3.is_true(e):
                return True
            if z3.is_false(e):
                return False
            return SBool(e)
        if z3.is_int_value(e):
            return e.as_long()
        return SNum(e)
    return e


def is_num(o):
    return isinstance(o, (int, float, np.integer, np.floating, fractions.Fraction, SNum)) and not isinstance(o, (bool, np.bool_))


class SBool:
    __slots__ = ("e",)

    def __init__(self, e):
        self.e = e

    def __bool__(self):
        return CUR.branch(self.e)

    def __and__(self, o):
        return wrap(z3.And(self.e, lift(o)))
    __rand__ = __and__

    def __or__(self, o):
        return wrap(z3.Or(self.e, lift(o)))
    __ror__ = __or__

    def __invert__(self):
        return wrap(z3.Not(self.e))

    def __eq__(self, o):
        return wrap(self.e == lift(o))

    def __ne__(self, o):
        return wrap(self.e != lift(o))

    def __hash__(self):
        raise SymbolicEscape("hash of symbolic bool")

    def __repr__(self):
        return "SBool(" + self.e.sexpr()[:80] + ")"


def _inf_cmp(op, o):
    """comparison of a finite real with +-inf"""
    pos = o > 0
    return {"lt": pos, "le": pos, "gt": not pos, "ge": not pos, "eq": False, "ne": True}[op]


class SNum:
    __slots__ = ("e",)

    def __init__(self, e):
        self.e = e

    # ---- arithmetic
    def _bin(self, o, f, r=False):
        if isinstance(o, np.ndarray):
            g = (lambda y: self._bin(y, f, r))
            return np.frompyfunc(g, 1, 1)(o)
        if not is_num(o):
            return NotImplemented
        a, b = self.e, lift(o)
        if r:
            a, b = b, a
        return wrap(f(a, b))

    def __add__(self, o):
        return self._bin(o, lambda a, b: a + b)

    def __radd__(self, o):
        return self._bin(o, lambda a, b: a + b, True)

    def __sub__(self, o):
        return self._bin(o, lambda a, b: a - b)

    def __rsub__(self, o):
        return self._bin(o, lambda a, b: a - b, True)

    def __mul__(self, o):
        return self._bin(o, _mul)

    def __rmul__(self, o):
        return self._bin(o, _mul, True)

    def __truediv__(self, o):
        return self._bin(o, _div)

    def __rtruediv__(self, o):
        return self._bin(o, _div, True)

    def __neg__(self):
        return wrap(-self.e)

    def __pos__(self):
        return self

    def conjugate(self):
        return self

    def __round__(self, ndigits=None):
        if ndigits is None:
            return wrap(round_half_even(self.e))
        if not isinstance(ndigits, int) or not 0 <= ndigits <= 12:
            raise SymbolicEscape("round(x, ndigits) of a symbolic number")
        scale = 10 ** ndigits
        return wrap(z3.ToReal(round_half_even(term(self) * scale)) / scale)

    def __floor__(self):
        return wrap(z3.ToInt(term(self)))

    def __ceil__(self):
        return wrap(-z3.ToInt(-term(self)))

    def __trunc__(self):
        x = term(self)
        return wrap(z3.If(x >= 0, z3.ToInt(x), -z3.ToInt(-x)))

    def __abs__(self):
        return wrap(z3.If(self.e >= 0, self.e, -self.e))

    # ---- comparisons
    def _cmp(self, o, op):
        if isinstance(o, np.ndarray):
            return np.frompyfunc(lambda y: self._cmp(y, op), 1, 1)(o)
        if isinstance(o, (float, np.floating)) and math.isinf(o):
            return _inf_cmp(op, o)
        if isinstance(o, (float, np.floating)) and o != o:
            return op == "ne"
        if not is_num(o):
            if op == "eq":
                return False
            if op == "ne":
                return True
            return NotImplemented
        a, b = self.e, lift(o)
        return wrap({"lt": a < b, "le": a <= b, "gt": a > b, "ge": a >= b, "eq": a == b, "ne": a != b}[op])

    def __lt__(self, o):
        return self._cmp(o, "lt")

    def __le__(self, o):
        return self._cmp(o, "le")

    def __gt__(self, o):
        return self._cmp(o, "gt")

    def __ge__(self, o):
        return self._cmp(o, "ge")

    def __eq__(self, o):
        return self._cmp(o, "eq")

    def __ne__(self, o):
        return self._cmp(o, "ne")

    # ---- escapes
    def __hash__(self):
        raise SymbolicEscape("hash of symbolic number")

    def __float__(self):
        raise SymbolicEscape("float() of symbolic number (value would escape into C code)")

    def __int__(self):
        raise SymbolicEscape("int() of symbolic number")

    def __index__(self):
        raise SymbolicEscape("symbolic number used as index")

    def __bool__(self):
        return CUR.branch(self.e != 0)

    def __repr__(self):
        return "SNum(" + self.e.sexpr()[:80] + ")"       # z3's Python pretty-printer is far too slow for big terms

    def __format__(self, spec):
        return "<sym " + self.e.sexpr()[:80] + ">"

    def __str__(self):
        return "<sym " + self.e.sexpr()[:80] + ">"


def _mul(a, b):
    return a * b


def round_half_even(x):
    """Python's round(x) (banker's rounding) as a z3 Int term"""
    if z3.is_int(x):
        return x
    f = z3.ToInt(x)                       # floor
    frac = x - z3.ToReal(f)
    half = z3.RealVal("1/2")
    return z3.If(frac < half, f, z3.If(frac > half, f + 1, z3.If(f % 2 == 0, f, f + 1)))


def _div(a, b):
    if z3.is_int(a):
        a = z3.ToReal(a)
    if z3.is_int(b):
        b = z3.ToReal(b)
    return a / b


def term(x):
    """z3 Real term of a possibly concrete number"""
    e = lift(x)
    return z3.ToReal(e) if z3.is_int(e) else e


# ------------------------------------------------------------------ path exploration
class PathCtx:
    def __init__(self, ex, prefix):
        self.ex = ex
        self.prefix = prefix
        self.trace = []
        self.solver = harness.solver(ex.timeout_ms)
        self.solver.add(*ex.pre)
        self.conds = []        # constraints added on this path (beyond ex.pre)
        self.model = None
        self.alts = []
        self.choices = []      # values returned by choose() on this path (for replays)
        self.pinned = []       # choices to be replayed without forking (second run of the same computation)

    def _ensure_model(self):
        if self.model is None:
            r = harness.check(self.solver, "feasibility")
            if r == "unsat":
                raise _Infeasible()
            if r != "sat":
                raise Inconclusive("feasibility query returned unknown")
            self.model = self.solver.model()

    def branch(self, cond):
        cond = z3.simplify(cond)
        if z3.is_true(cond):
            return True
        if z3.is_false(cond):
            return False
        k = len(self.trace)
        if k < len(self.prefix):
            d = self.prefix[k]
            self.trace.append(d)
            self.solver.add(cond if d else z3.Not(cond))
            self.conds.append(cond if d else z3.Not(cond))
            self.model = None
            return d
        self._ensure_model()
        v = self.model.eval(cond, model_completion=True)
        if z3.is_true(v):
            d = True
        elif z3.is_false(v):
            d = False
        else:
            d = None
        if d is None:
            # model cannot decide (should not happen with model_completion): ask both ways
            r, _ = harness.refute(self.solver, "feasibility", cond)
            d = (r == "sat")
        other = z3.Not(cond) if d else cond
        r, m = harness.refute(self.solver, "feasibility", other)
        if r == "sat":
            self.alts.append(self.trace + [not d])
        elif r != "unsat":
            raise Inconclusive("feasibility query returned unknown")
        self.trace.append(d)
        self.solver.add(cond if d else z3.Not(cond))
        self.conds.append(cond if d else z3.Not(cond))
        STATS.transitions += 1
        return d

    def choose(self, n, label="choice"):
        """nondeterministic value in range(n) (environment stub: random choice, solver's pick, ...)"""
        if self.pinned:
            lab, v = self.pinned.pop(0)
            v = min(v, n - 1)
            self.choices.append((label, v))
            return v
        lo, hi = 0, n
        while hi - lo > 1:
            mid = (lo + hi) // 2
            k = len(self.trace)
            if k < len(self.prefix):
                d = self.prefix[k]
            else:
                d = True
                self.alts.append(self.trace + [False])
            self.trace.append(d)
            if d:
                hi = mid
            else:
                lo = mid
        self.choices.append((label, lo))
        return lo

    def assume(self, phi):
        """cut the path to the part where phi holds (phi: z3 Bool or python bool)"""
        if phi is True:
            return
        if phi is False:
            raise _Infeasible()
        self.solver.add(phi)
        self.conds.append(phi)
        self.model = None
        r = harness.check(self.solver, "feasibility")
        if r == "unsat":
            raise _Infeasible()
        if r != "sat":
            raise Inconclusive("assume: unknown")
        self.model = self.solver.model()

    def prove(self, phi, kind="property"):
        """must hold for every valuation on this path. returns None if proved, else a model"""
        if phi is True:
            STATS.q[f"{kind}:trivial"] += 1
            return None
        if phi is False:
            self._ensure_model()
            return self.model
        r, m = harness.refute(self.solver, kind, z3.Not(phi))
        if r == "unsat":
            return None
        if r == "sat":
            return m
        raise Inconclusive(f"{kind} query returned unknown")

    def feasible(self, phi, kind="feasibility", soft_timeout_ms=None):
        if soft_timeout_ms:
            self.solver.set("timeout", soft_timeout_ms)
        try:
            r, m = harness.refute(self.solver, kind, phi)
        finally:
            if soft_timeout_ms:
                self.solver.set("timeout", self.ex.timeout_ms)
        if r == "unknown":
            if soft_timeout_ms:
                return None
            raise Inconclusive("unknown")
        return m if r == "sat" else None


CUR = None


def summarize(run, group_key, cache_key=None):
    """nested exploration with outcome merging.
    run(ctx) -> result is explored under the explorer's precondition only (not the outer path condition: the summary is
    then independent of the outer path and is cached under cache_key across the outer re-executions); results are
    grouped by group_key(result); the outer path forks once per group (not once per inner path) and continues with
    the disjunction of the group's path conditions (infeasible combinations are cut by the solver).
    returns [(path condition, result), ...] of the chosen group"""
    global CUR
    outer = CUR
    cache = outer.ex.summaries
    if cache_key is not None and cache_key in cache:
        groups = cache[cache_key]
    else:
        sub = Explorer(list(outer.ex.pre), outer.ex.max_paths, outer.ex.timeout_ms)
        try:
            results = sub.explore(lambda c: (run(c), z3.And(*c.conds) if c.conds else z3.BoolVal(True)))
        finally:
            CUR = outer
        groups = {}
        for res, pc in results:
            groups.setdefault(group_key(res), []).append((pc, res))
        if cache_key is not None:
            cache[cache_key] = groups
    keys = sorted(groups, key=repr)
    if not keys:
        raise _Infeasible()
    k = outer.choose(len(keys), "summary-outcome")
    grp = groups[keys[k]]
    outer.assume(z3.Or(*[pc for pc, _ in grp]) if len(grp) > 1 else grp[0][0])
    return grp


def ite_chain(grp, value_of):
    """value as an if-then-else over the path conditions of a merged outcome group"""
    val = value_of(grp[-1][1])
    for pc, res in reversed(grp[:-1]):
        v = value_of(res)
        val = wrap(z3.If(pc, term(v), term(val)))
    return val


class Explorer:
    def __init__(self, pre, max_paths=20000, timeout_ms=60000):
        self.pre = list(pre)
        self.max_paths = max_paths
        self.timeout_ms = timeout_ms
        self.summaries = {}
        self.max_abandoned = 8

    def explore(self, fn):
        """fn(ctx) is executed once per feasible path; returns list of fn's return values"""
        global CUR
        work = [[]]
        results = []
        n = 0
        n_abandoned = 0
        while work:
            prefix = work.pop()
            if n >= self.max_paths:
                raise PathLimit(f"more than {self.max_paths} paths")
            ctx = PathCtx(self, prefix)
            CUR = ctx
            try:
                res = fn(ctx)
                results.append(res)
                n += 1
                STATS.paths += 1
                STATS.states += 1
            except _Infeasible:
                pass
            except Abandon as e:
                STATS.abandoned[str(e)] += 1
                n_abandoned += 1
                if n_abandoned >= self.max_abandoned:
                    # giving up path after path is pointless: the rest of this exploration is dropped (and counted)
                    STATS.abandoned[f"exploration stopped after {n_abandoned} abandoned paths"] += 1
                    CUR = None
                    return results
            finally:
                CUR = None
            work.extend(ctx.alts)
        return results


# ------------------------------------------------------------------ numpy shims for the glue modules
import operator as _op


class SymArr(np.ndarray):
    """object-dtype array whose comparisons stay symbolic (an object array of SBool / bool) instead of forcing bool() on
    every entry at once: the fork happens where the glue code finally needs a concrete truth value (where / nonzero / if)"""
    def _c(self, o, f):
        r = np.frompyfunc(f, 2, 1)(np.asarray(self), np.asarray(o) if isinstance(o, np.ndarray) else o)
        return r.view(SymArr) if isinstance(r, np.ndarray) else r

    def __gt__(self, o):
        return self._c(o, _op.gt)

    def __ge__(self, o):
        return self._c(o, _op.ge)

    def __lt__(self, o):
        return self._c(o, _op.lt)

    def __le__(self, o):
        return self._c(o, _op.le)

    def __eq__(self, o):
        return self._c(o, _op.eq)

    def __ne__(self, o):
        return self._c(o, _op.ne)

    __hash__ = None

    def __array_wrap__(self, arr, context=None, return_scalar=False):
        if arr.ndim == 0:
            return arr[()]                      # reductions give back the element itself (a proxy or a number)
        if arr.dtype == object:
            return arr.view(SymArr)
        return np.asarray(arr)


def as_symarr(a):
    return a.view(SymArr) if isinstance(a, np.ndarray) and a.dtype == object else a


def obj_zeros(shape, dtype=float, **kw):
    if dtype in (int, np.int32, np.int64, bool):
        return np.zeros(shape, dtype=dtype)
    a = np.empty(shape, dtype=object)
    a.fill(0.0)
    return a.view(SymArr)


def _lift_bool(x):
    return x.e if isinstance(x, SBool) else z3.BoolVal(bool(x))


def sym_logical(kind):
    real = {"or": np.logical_or, "and": np.logical_and}[kind]

    def one(a, b):
        if isinstance(a, SBool) or isinstance(b, SBool):
            return wrap(z3.Or(_lift_bool(a), _lift_bool(b)) if kind == "or" else z3.And(_lift_bool(a), _lift_bool(b)))
        return (bool(a) or bool(b)) if kind == "or" else (bool(a) and bool(b))

    def f(a, b, *args, **kw):
        if not _has_sym(a, b):
            return real(a, b, *args, **kw)
        r = np.frompyfunc(one, 2, 1)(np.asarray(a), np.asarray(b))
        return r.view(SymArr) if isinstance(r, np.ndarray) else r
    return f


def sym_logical_not(a, *args, **kw):
    if not _has_sym(a):
        return np.logical_not(a, *args, **kw)
    r = np.frompyfunc(lambda x: ~x if isinstance(x, SBool) else (not bool(x)), 1, 1)(np.asarray(a))
    return r.view(SymArr) if isinstance(r, np.ndarray) else r


def sym_isnan(x):
    if isinstance(x, SNum):
        return False
    return math.isnan(x)


def obj_vdot(a, b):
    a = np.asarray(a)
    b = np.asarray(b)
    if a.dtype != object and b.dtype != object:
        return np.vdot(a, b)
    tot = 0
    for x, y in zip(a.ravel().tolist(), b.ravel().tolist()):
        tot = tot + x * y
    return tot


def _has_sym(*xs):
    for x in xs:
        if isinstance(x, (SNum, SBool)):
            return True
        if isinstance(x, np.ndarray) and x.dtype == object:
            return True
    return False


def sym_isclose(a, b, rtol=1e-05, atol=1e-08, equal_nan=False):
    if not _has_sym(a, b):
        return np.isclose(a, b, rtol=rtol, atol=atol, equal_nan=equal_nan)

    def one(x, y):
        return abs(x - y) <= atol + rtol * abs(y)
    if isinstance(a, np.ndarray) or isinstance(b, np.ndarray):
        return np.frompyfunc(one, 2, 1)(a, b)
    return one(a, b)


def sym_allclose(a, b, rtol=1e-05, atol=1e-08, equal_nan=False):
    r = sym_isclose(a, b, rtol, atol, equal_nan)
    if isinstance(r, np.ndarray):
        return all(bool(x) for x in r.ravel().tolist())
    return bool(r)


def sym_math_isclose(a, b, *, rel_tol=1e-09, abs_tol=0.0):
    if not _has_sym(a, b):
        return math.isclose(a, b, rel_tol=rel_tol, abs_tol=abs_tol)
    d = abs(a - b)
    return bool(d <= rel_tol * abs(a)) or bool(d <= rel_tol * abs(b)) or bool(d <= abs_tol)


def sym_np_round(a, decimals=0, out=None):
    if not _has_sym(a):
        return np.round(a, decimals)
    if decimals != 0:
        raise SymbolicEscape("numpy round with decimals on symbolic values")
    if isinstance(a, np.ndarray):
        return np.frompyfunc(lambda x: round(x) if isinstance(x, SNum) else float(round(x)), 1, 1)(a)
    return round(a)


_builtin_float = float


class _SymFloatMeta(type):
    def __instancecheck__(cls, obj):
        return isinstance(obj, (_builtin_float, SNum))


class sym_float(metaclass=_SymFloatMeta):
    """stands for `float` inside corankco modules: float(x) keeps symbolic reals symbolic, isinstance(x, float) accepts them"""
    def __new__(cls, x=0.0):
        if isinstance(x, SNum):
            return x
        return _builtin_float(x)


def _shim_table():
    return {id(np.zeros): (obj_zeros, "object-dtype zeros for float arrays"),
            id(np.isclose): (sym_isclose, "|a-b| <= atol + rtol*|b| on symbolic reals"),
            id(np.logical_or): (sym_logical("or"), "elementwise Or of symbolic booleans (no fork)"),
            id(np.logical_and): (sym_logical("and"), "elementwise And of symbolic booleans (no fork)"),
            id(np.logical_not): (sym_logical_not, "elementwise Not of symbolic booleans (no fork)"),
            id(np.allclose): (sym_allclose, "allclose via isclose"),
            id(np.round): (sym_np_round, "round half even on symbolic reals"),
            id(math.isnan): (sym_isnan, "isnan that is False on symbolic reals"),
            id(math.isclose): (sym_math_isclose, "math.isclose on symbolic reals")}


def install_shims():
    """rebinding of module globals inside the checking process only; /repo is not edited.  Every corankco module
    is scanned for names bound to the numpy / math functions of the table and rebound to proxy-aware versions."""
    import sys, importlib
    for m in ("corankco", "corankco.algorithms.pairwisebasedalgorithm", "corankco.algorithms.bioconsert.bioconsert",
              "corankco.scoringscheme", "corankco.kemeny_score_computation", "corankco.partitioning.ordered_partition"):
        importlib.import_module(m)
    table = _shim_table()
    done = {}
    for mname, mod in list(sys.modules.items()):
        if not mname.startswith("corankco") or mod is None:
            continue
        for name, val in list(vars(mod).items()):
            hit = table.get(id(val))
            if hit is not None:
                setattr(mod, name, hit[0])
                done[f"{mname}.{name}"] = hit[1]
        if hasattr(mod, "__file__") and not hasattr(mod, "__path__"):
            mod.float = sym_float
    done["corankco.*.float"] = "float(x) keeps symbolic reals symbolic; isinstance(x, float) accepts them"
    return done


# ------------------------------------------------------------------ symbolic scoring scheme
def scheme_vars(tag=""):
    B = [z3.Real(f"B{tag}{k}") for k in range(6)]
    T = [z3.Real(f"T{tag}{k}") for k in range(6)]
    return B, T


def valid_scheme(B, T):
    return [x >= 0 for x in B + T] + [B[0] == 0, B[1] > 0, B[3] <= B[4], T[0] == T[1], T[2] == 0, T[3] == T[4]]


def make_scheme(B, T):
    """a real ScoringScheme object whose 12 penalties are the given z3 terms"""
    from corankco.scoringscheme import ScoringScheme
    sc = ScoringScheme.get_unifying_scoring_scheme()
    sc._penalty_vectors = [[wrap(x) for x in B], [wrap(x) for x in T]]
    return sc


def scheme_values(m, B, T):
    return [[harness.zval(m, x) for x in B], [harness.zval(m, x) for x in T]]
