"""Oracles written from the property statements (not from the code).

Conventions: elements are ids 0..n-1; a ranking is a *level vector* lv[e] in {-1, 0, 1, ...} (-1 = unranked,
ranked levels need not be dense for the oracles); penalty vectors B, T are lists of 6 numbers or z3 terms.
Status of an ordered pair (x, y) in an input ranking: 0 x before y, 1 y before x, 2 tied, 3 only x ranked,
4 only y ranked, 5 both unranked.  Placing x before y costs B[status]; tying them costs T[status].
"""
import itertools, fractions
import z3

FLIP = {0: 1, 1: 0, 2: 2, 3: 4, 4: 3, 5: 5}


# ---------------------------------------------------------------- concrete
def status_c(a, b):
    if a != -1 and b != -1:
        return 0 if a < b else 1 if a > b else 2
    if a != -1:
        return 3
    if b != -1:
        return 4
    return 5


def pair_costs_c(B, T, a, b):
    """(cost x before y, cost x after y, cost x tied y) for one input ranking with levels a (x), b (y)"""
    s = status_c(a, b)
    return B[s], B[FLIP[s]], T[s]


def score_c(cand, rankings, B, T, elems=None):
    """generalized Kemeny score by the definition.  cand: level vector (or dict) of the candidate over `elems`
    (all elements of the candidate); rankings: list of level vectors/dicts (missing key or -1 = unranked)."""
    if elems is None:
        elems = list(cand.keys()) if isinstance(cand, dict) else [e for e in range(len(cand)) if cand[e] != -1]
    tot = 0
    for r in rankings:
        get = (lambda e: r.get(e, -1)) if isinstance(r, dict) else (lambda e: r[e] if e < len(r) else -1)
        for x, y in itertools.combinations(elems, 2):
            cx, cy = cand[x], cand[y]
            a, b = get(x), get(y)
            if cx < cy:
                tot = tot + B[status_c(a, b)]
            elif cy < cx:
                tot = tot + B[status_c(b, a)]
            else:
                tot = tot + T[status_c(a, b)]
    return tot


def cost_table_c(rankings, n, B, T):
    """n x n x 3 table by the definition"""
    tab = [[[0, 0, 0] for _ in range(n)] for _ in range(n)]
    for x in range(n):
        for y in range(n):
            if x == y:
                continue
            for r in rankings:
                bf, af, ti = pair_costs_c(B, T, r[x], r[y])
                tab[x][y][0] = tab[x][y][0] + bf
                tab[x][y][1] = tab[x][y][1] + af
                tab[x][y][2] = tab[x][y][2] + ti
    return tab


def score_from_table(cand, tab):
    n = len(cand)
    tot = 0
    for x, y in itertools.combinations(range(n), 2):
        tot = tot + (tab[x][y][0] if cand[x] < cand[y] else tab[x][y][1] if cand[x] > cand[y] else tab[x][y][2])
    return tot


# ---------------------------------------------------------------- symbolic (z3)
def status_z(a, b):
    return z3.If(z3.And(a != -1, b != -1), z3.If(a < b, 0, z3.If(a > b, 1, 2)),
                 z3.If(a != -1, 3, z3.If(b != -1, 4, 5)))


def sel_z(vec, s):
    r = vec[5]
    for k in reversed(range(5)):
        r = z3.If(s == k, vec[k], r)
    return r


def pair_costs_z(B, T, a, b):
    s = status_z(a, b)
    Bf = [B[FLIP[k]] for k in range(6)]
    return sel_z(B, s), sel_z(Bf, s), sel_z(T, s)


def rsum(xs):
    xs = list(xs)
    if not xs:
        return z3.RealVal(0)
    tot = xs[0]
    for x in xs[1:]:
        tot = tot + x
    return tot


def cost_table_z(pos, n, m, B, T):
    """pos[e][r] z3 ints (or python ints) -> table of z3 terms by the definition"""
    tab = [[[z3.RealVal(0)] * 3 for _ in range(n)] for _ in range(n)]
    for x in range(n):
        for y in range(n):
            if x == y:
                continue
            cs = [pair_costs_z(B, T, pos[x][r], pos[y][r]) for r in range(m)]
            tab[x][y] = [rsum(c[k] for c in cs) for k in range(3)]
    return tab


# ---------------------------------------------------------------- weak orders
def ordered_partitions(items):
    """all rankings with ties (lists of sets, as lists of tuples) of the given items"""
    items = list(items)
    if not items:
        yield []
        return
    n = len(items)
    for k in range(1, n + 1):
        for first in itertools.combinations(items, k):
            rest = [x for x in items if x not in first]
            for tail in ordered_partitions(rest):
                yield [tuple(first)] + tail


def level_vectors(n):
    """all dense level vectors of weak orders on n elements (1, 3, 13, 75, 541)"""
    out = []
    for part in ordered_partitions(range(n)):
        lv = [0] * n
        for i, b in enumerate(part):
            for e in b:
                lv[e] = i
        out.append(tuple(lv))
    return out


def buckets_of(lv):
    """level vector (with -1 = absent) -> list of sorted tuples of ids"""
    levels = sorted(set(x for x in lv if x != -1))
    return [tuple(e for e in range(len(lv)) if lv[e] == l) for l in levels]


def levels_of(buckets, n):
    lv = [-1] * n
    for i, b in enumerate(buckets):
        for e in b:
            lv[e] = i
    return tuple(lv)
