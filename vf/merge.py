"""Engine M: merge-mode bounded symbolic interpreter for the numba-style subset of Python used by
corankco's numeric kernels.

The interpreter reads the *current* source of a function from /repo (inspect.getsource), parses it
and executes it on z3 terms: branches on symbolic conditions fork heap+environment and are merged
with ite; while loops are unrolled to a bound and then emit an unwinding assertion; symbolic array
indices emit index-in-bounds obligations.  Everything not in the supported subset raises
Unsupported (harness error, never a verdict).
"""
import ast, inspect, textwrap, itertools, hashlib
import z3
from vf.mstr import MStr, MSplit, MBag


def unwrap_fn(fn):
    """plain Python function behind numba dispatchers, staticmethods and the sweep's summarising wrappers"""
    for _ in range(4):
        fn = getattr(fn, "__wrapped__", fn)
        fn = getattr(fn, "py_func", fn)
        if isinstance(fn, (staticmethod, classmethod)):
            fn = fn.__func__
    return fn


def fn_source(fn):
    """(qualified name, dedented source text, sha1) of a function as found in /repo right now"""
    fn = unwrap_fn(fn)
    src = textwrap.dedent(inspect.getsource(fn))
    return fn.__module__ + "." + fn.__qualname__, src, hashlib.sha1(src.encode()).hexdigest()[:12]


class Unsupported(Exception):
    pass


def is_sym(v):
    return isinstance(v, z3.ExprRef)


def to_z3(v):
    if is_sym(v):
        return v
    if isinstance(v, bool):
        return z3.BoolVal(v)
    if isinstance(v, int):
        return z3.IntVal(v)
    if isinstance(v, float):
        return z3.RealVal(repr(v)) if v != int(v) else z3.RealVal(int(v))
    raise Unsupported(f"to_z3 {type(v)}")


def z_ite(c, a, b):
    if a is b:
        return a
    if not is_sym(a) and not is_sym(b):
        if type(a) == type(b) and a == b:
            return a
    za, zb = to_z3(a), to_z3(b)
    if za.sort() != zb.sort():
        if z3.is_int(za) and z3.is_real(zb):
            za = z3.ToReal(za)
        elif z3.is_real(za) and z3.is_int(zb):
            zb = z3.ToReal(zb)
        else:
            raise Unsupported(f"ite sorts {za.sort()} {zb.sort()}")
    if z3.eq(za, zb):
        return a
    return z3.If(c, za, zb)


class Heap:
    def __init__(self):
        self.st = {}
        self.n = 0

    def alloc(self, cells):
        self.n += 1
        self.st[self.n] = list(cells)
        return self.n

    def fork(self):
        h = Heap()
        h.st = {k: list(v) for k, v in self.st.items()}
        h.n = self.n
        return h


class Arr:
    """numpy-like view on a heap storage: (sid, offset, shape, strides)."""
    def __init__(self, sid, offset, shape, strides):
        self.sid, self.offset, self.shape, self.strides = sid, offset, tuple(shape), tuple(strides)

    @staticmethod
    def new(heap, shape, fill):
        shape = tuple(shape)
        size = 1
        for s in shape:
            size *= s
        strides = []
        acc = 1
        for s in reversed(shape):
            strides.append(acc)
            acc *= s
        strides = tuple(reversed(strides))
        cells = list(fill) if isinstance(fill, (list, tuple)) else [fill] * size
        assert len(cells) == size
        return Arr(heap.alloc(cells), 0, shape, strides)

    def indices(self):
        for idx in itertools.product(*[range(s) for s in self.shape]):
            yield idx, self.offset + sum(i * s for i, s in zip(idx, self.strides))


class MSet:
    """a set of small ints (0..n-1) with symbolic membership: one z3 Bool per candidate; add/remove under a guard"""
    def __init__(self, bools):
        self.m = list(bools)

    def _sel(self, x, f):
        if not is_sym(x):
            return f(int(x))
        return None

    def contains(self, x):
        if not is_sym(x):
            return self.m[int(x)] if 0 <= int(x) < len(self.m) else False
        return z3.Or(*[z3.And(x == i, to_z3(self.m[i])) for i in range(len(self.m))])

    def _set(self, x, val, guard):
        for i in range(len(self.m)):
            hit = b_and(guard, (x == i) if is_sym(x) else (int(x) == i))
            if hit is False:
                continue
            self.m[i] = val if hit is True else z3.If(hit, z3.BoolVal(val), to_z3(self.m[i]))

    def add(self, x, guard=True):
        self._set(x, True, guard)

    def remove(self, x, guard=True):
        self._set(x, False, guard)

    discard = remove


class Ctx:
    def __init__(self, unwind=16):
        self.heap = Heap()
        self.obligations = []   # (guard, formula, text)
        self.unwind = unwind
        self.unwind_map = {}     # lineno (within the function's own source) -> bound
        self.stats = {"ite": 0, "forks": 0}
        self.encoded = {}        # qualified name -> sha1 of the source text that was interpreted
        self.raises = []         # (guard, exception type name) of every raise statement reached
        self.bags = False        # string mode: `[]` and `set()` become guarded containers


class Frame:
    def __init__(self, fn_globals, cls_name=None):
        self.env = {}
        self.globals = fn_globals
        self.cls_name = cls_name
        self.returned = False      # False | z3 Bool | True
        self.retval = None
        self.brk = False
        self.cont = False


def b_and(*xs):
    out = []
    for x in xs:
        if x is True:
            continue
        if x is False:
            return False
        out.append(x)
    if not out:
        return True
    return out[0] if len(out) == 1 else z3.And(*out)


def b_or(*xs):
    out = []
    for x in xs:
        if x is False:
            continue
        if x is True:
            return True
        out.append(x)
    if not out:
        return False
    return out[0] if len(out) == 1 else z3.Or(*out)


def b_not(x):
    if x is True:
        return False
    if x is False:
        return True
    return z3.Not(x)


def as_cond(v):
    """python truthiness of a value, as concrete bool or z3 Bool"""
    if is_sym(v):
        if z3.is_bool(v):
            v = z3.simplify(v)
            if z3.is_true(v):
                return True
            if z3.is_false(v):
                return False
            return v
        return v != 0
    return bool(v)


class Interp:
    def __init__(self, ctx, models):
        self.ctx = ctx
        self.models = models   # callable-object -> model function (interp, args, kwargs)

    # ---------- function calls
    def call_function(self, fn, args, kwargs=None, guard=True):
        kwargs = kwargs or {}
        fn = unwrap_fn(fn)
        qn_, src, sha = fn_source(fn)
        self.ctx.encoded[qn_] = sha
        tree = ast.parse(src)
        fdef = tree.body[0]
        assert isinstance(fdef, ast.FunctionDef)
        cls_name = None
        qn = fn.__qualname__.split(".")
        if len(qn) > 1:
            cls_name = qn[-2]
        fr = Frame(fn.__globals__, cls_name)
        params = [a.arg for a in fdef.args.args]
        defaults = fdef.args.defaults
        for i, name in enumerate(params):
            if i < len(args):
                fr.env[name] = args[i]
            elif name in kwargs:
                fr.env[name] = kwargs[name]
            else:
                d = defaults[i - (len(params) - len(defaults))]
                fr.env[name] = self.eval(d, fr)
        self.exec_block(fdef.body, fr, guard)
        return fr.retval

    def open_function(self, fn):
        """parse the current source of fn without executing it: (FunctionDef, Frame) for loop-body mode"""
        fn = unwrap_fn(fn)
        qn_, src, sha = fn_source(fn)
        self.ctx.encoded[qn_] = sha
        fdef = ast.parse(src).body[0]
        qn = fn.__qualname__.split(".")
        return fdef, Frame(fn.__globals__, qn[-2] if len(qn) > 1 else None)

    def decide(self, c, guard):
        """with a precondition solver installed (ctx.pre_solver), a symbolic condition that is implied (or refuted) by the
        precondition and the current path guard is treated as concrete: no fork, no merged dead branch"""
        s = getattr(self.ctx, "pre_solver", None)
        if s is None or c is True or c is False:
            return c
        from vf import harness
        s.push()
        if guard is not True:
            s.add(to_z3(guard))
        r1 = harness.check(s, "branch-decision", z3.Not(c))
        r2 = harness.check(s, "branch-decision", c) if r1 == "sat" else None
        s.pop()
        if r1 == "unsat":
            return True
        if r2 == "unsat":
            return False
        return c

    # ---------- statements
    def active(self, fr, guard):
        return b_and(guard, b_not(fr.returned), b_not(fr.brk), b_not(fr.cont))

    def exec_block(self, stmts, fr, guard):
        for i, st in enumerate(stmts):
            pending = b_or(fr.returned, fr.brk, fr.cont)
            if pending is True:
                return
            if pending is not False:
                rest = stmts[i:]
                self.guarded(b_not(pending), lambda g: self.exec_block(rest, fr, g), fr, guard)
                return
            self.exec_stmt(st, fr, guard)

    def exec_stmt(self, st, fr, guard):
        m = getattr(self, "s_" + type(st).__name__, None)
        if m is None:
            raise Unsupported(f"stmt {type(st).__name__} line {st.lineno}")
        m(st, fr, guard)

    def s_Expr(self, st, fr, guard):
        if isinstance(st.value, ast.Constant):
            return
        self.eval(st.value, fr, guard)

    def s_Pass(self, st, fr, guard):
        pass

    def s_Assign(self, st, fr, guard):
        v = self.eval(st.value, fr, guard)
        for t in st.targets:
            self.assign(t, v, fr, guard)

    def s_AnnAssign(self, st, fr, guard):
        if st.value is not None:
            self.assign(st.target, self.eval(st.value, fr, guard), fr, guard)

    def s_AugAssign(self, st, fr, guard):
        if isinstance(st.target, ast.Subscript):
            base = self.eval(st.target.value, fr, guard)
            idx = self.eval_index(st.target.slice, fr, guard)
            if isinstance(base, Arr) and len(idx) == 1 and isinstance(idx[0], Arr):
                rhs = self.eval(st.value, fr, guard)
                cells = self.ctx.heap.st[base.sid]
                for (ix, pos) in base.indices():
                    m = as_cond(self.arr_get(idx[0], ix))
                    nv = self.binop(st.op, cells[pos], rhs)
                    cells[pos] = nv if m is True else cells[pos] if m is False else self.ite(m, nv, cells[pos])
                return
        cur = self.eval(self.as_load(st.target), fr, guard)
        rhs = self.eval(st.value, fr, guard)
        if isinstance(cur, Arr) and isinstance(st.target, ast.Name):
            # numpy semantics: `a += x` updates the array object in place (every alias sees it), it does not rebind the name
            cells = self.ctx.heap.st[cur.sid]
            for (ix, pos) in cur.indices():
                r = rhs
                if isinstance(rhs, Arr):
                    pad = len(cur.shape) - len(rhs.shape)
                    r = self.arr_get(rhs, tuple(0 if rhs.shape[d] == 1 else ix[d + pad] for d in range(len(rhs.shape))))
                cells[pos] = self.binop(st.op, cells[pos], r)
            return
        self.assign(st.target, self.binop(st.op, cur, rhs), fr, guard)

    def as_load(self, t):
        t2 = ast.copy_location(type(t)(**{f: getattr(t, f) for f in t._fields}), t)
        t2.ctx = ast.Load()
        return t2

    def s_Return(self, st, fr, guard):
        v = self.eval(st.value, fr, guard) if st.value is not None else None
        fr.retval = v
        fr.returned = True

    def s_Raise(self, st, fr, guard):
        name = "Exception"
        exc = st.exc
        if isinstance(exc, ast.Call):
            exc = exc.func
        if isinstance(exc, ast.Name):
            name = exc.id
        elif isinstance(exc, ast.Attribute):
            name = exc.attr
        self.ctx.raises.append((guard, name))
        fr.retval = None
        fr.returned = True

    def s_With(self, st, fr, guard):
        """context managers are modelled objects whose __enter__ returns themselves (file stand-ins); __exit__ has no effect"""
        for item in st.items:
            v = self.eval(item.context_expr, fr, guard)
            if not getattr(v, "is_model_context", False):
                raise Unsupported(f"with-statement on {type(v).__name__} line {st.lineno}")
            if item.optional_vars is not None:
                self.assign(item.optional_vars, v, fr, guard)
        self.exec_block(st.body, fr, guard)

    def s_Try(self, st, fr, guard):
        """try / except over a body of ONE statement (exceptions are recorded guards, not control flow across calls: the rest
        of a longer body would run on after a raising call): raises recorded while the body runs that a handler's class
        catches are removed from the record and the handler runs under their disjunction"""
        import builtins
        if len(st.body) != 1 or st.orelse or st.finalbody:
            raise Unsupported(f"try statement with a body of several statements / else / finally, line {st.lineno}")
        n0 = len(self.ctx.raises)
        self.exec_block(st.body, fr, guard)
        new = self.ctx.raises[n0:]
        del self.ctx.raises[n0:]

        def catches(h, name):
            if h.type is None:
                return True
            hs = h.type.elts if isinstance(h.type, ast.Tuple) else [h.type]
            for t in hs:
                hn = t.id if isinstance(t, ast.Name) else getattr(t, "attr", None)
                if hn == name:
                    return True
                a, b = getattr(builtins, name, None), getattr(builtins, hn or "", None)
                if isinstance(a, type) and isinstance(b, type) and issubclass(a, b):
                    return True
            return False
        remaining = list(new)
        for h in st.handlers:
            mine = [(g, n) for g, n in remaining if catches(h, n)]
            remaining = [(g, n) for g, n in remaining if not catches(h, n)]
            if not mine:
                continue
            if h.name:
                raise Unsupported("except ... as name")
            c = b_or(*[g for g, _ in mine])
            c = self.decide(as_cond(c), guard) if c is not True else True
            if c is False:
                continue
            # a raise inside the body's own frame set the frame's return flag: the handler resumes
            if c is True or z3.is_true(c):
                fr.returned = False
                self.exec_block(h.body, fr, guard)
            else:
                if fr.returned is not False:
                    raise Unsupported("conditionally caught raise of the enclosing frame")
                self.guarded(c, lambda g2: self.exec_block(h.body, fr, g2), fr, guard)
        self.ctx.raises.extend(remaining)

    def s_Break(self, st, fr, guard):
        fr.brk = True

    def s_Continue(self, st, fr, guard):
        fr.cont = True

    def s_If(self, st, fr, guard):
        c = self.decide(as_cond(self.eval(st.test, fr, guard)), guard)
        if c is True:
            self.exec_block(st.body, fr, guard)
        elif c is False:
            self.exec_block(st.orelse, fr, guard)
        else:
            self.branch(c, lambda g: self.exec_block(st.body, fr, g), lambda g: self.exec_block(st.orelse, fr, g), fr, guard)

    def branch(self, c, then_thunk, else_thunk, fr, guard, reset_flags_then=False):
        """fork the frame + heap, run both sides, merge with ite"""
        self.ctx.stats["forks"] += 1
        heap0 = self.ctx.heap
        env0 = dict(fr.env)
        flags0 = (fr.returned, fr.retval, fr.brk, fr.cont)
        self.ctx.heap = heap0.fork()
        if reset_flags_then:
            fr.returned, fr.brk, fr.cont = False, False, False
        then_thunk(b_and(guard, c))
        heap1, env1, flags1 = self.ctx.heap, fr.env, (fr.returned, fr.retval, fr.brk, fr.cont)
        self.ctx.heap = heap0.fork()
        fr.env = dict(env0)
        fr.returned, fr.retval, fr.brk, fr.cont = flags0
        else_thunk(b_and(guard, b_not(c)))
        heap2, env2, flags2 = self.ctx.heap, fr.env, (fr.returned, fr.retval, fr.brk, fr.cont)
        merged = Heap()
        merged.n = max(heap1.n, heap2.n)
        for sid in set(heap1.st) | set(heap2.st):
            a, b = heap1.st.get(sid), heap2.st.get(sid)
            if a is None:
                merged.st[sid] = b
            elif b is None:
                merged.st[sid] = a
            else:
                merged.st[sid] = [self.ite(c, x, y) for x, y in zip(a, b)]
        self.ctx.heap = merged
        env = {}
        for k in set(env1) | set(env2):
            if k in env1 and k in env2:
                env[k] = self.ite(c, env1[k], env2[k])
            else:
                env[k] = env1.get(k, env2.get(k))
        fr.env = env
        fr.returned = self.ite_flag(c, flags1[0], flags2[0])
        fr.brk = self.ite_flag(c, flags1[2], flags2[2])
        fr.cont = self.ite_flag(c, flags1[3], flags2[3])
        if flags1[0] is False:
            fr.retval = flags2[1]
        elif flags2[0] is False:
            fr.retval = flags1[1]
        else:
            fr.retval = self.ite(c, flags1[1], flags2[1])

    def guarded(self, c, thunk, fr, guard):
        self.branch(c, thunk, lambda g: None, fr, guard, reset_flags_then=True)

    def ite_flag(self, c, a, b):
        if a is b:
            return a
        return b_or(b_and(c, a), b_and(b_not(c), b))

    def ite(self, c, a, b):
        if a is b:
            return a
        if isinstance(a, Arr) or isinstance(b, Arr):
            if isinstance(a, Arr) and isinstance(b, Arr) and (a.sid, a.offset, a.shape, a.strides) == (b.sid, b.offset, b.shape, b.strides):
                return a
            raise Unsupported("merge of distinct arrays")
        if isinstance(a, tuple) and isinstance(b, tuple) and len(a) == len(b):
            return tuple(self.ite(c, x, y) for x, y in zip(a, b))
        if isinstance(a, list) and isinstance(b, list):
            if len(a) != len(b):
                raise Unsupported("merge of lists of different lengths")
            return [self.ite(c, x, y) for x, y in zip(a, b)]
        if a is None or b is None:
            return b if a is None else a          # one side raised: its value is irrelevant
        if isinstance(a, MBag) and isinstance(b, MBag):
            m = MBag()
            m.items = [(b_and(c, g), x) for g, x in a.items] + [(b_and(b_not(c), g), x) for g, x in b.items]
            return m
        if isinstance(a, MStr) and isinstance(b, MStr) and a.chars is b.chars:
            return MStr(a.chars, z_ite(c, a.start, b.start), z_ite(c, a.length, b.length))
        self.ctx.stats["ite"] += 1
        return z_ite(c, a, b)

    def s_For(self, st, fr, guard):
        it = self.eval(st.iter, fr, guard)
        if isinstance(it, MSplit):
            self.for_pieces(st, it, 0, fr, guard)
            fr.brk = False
            return
        if isinstance(it, Arr):
            items = [self.arr_get(it, (i,)) for i in range(it.shape[0])]
        else:
            items = list(it)
        self.for_from(st, items, 0, fr, guard)
        fr.brk = False

    def for_pieces(self, st, sp, k, fr, guard):
        """guarded iteration over the pieces of a symbolic split: piece k exists iff there are at least k separators"""
        if k >= sp.max_pieces():
            return
        exists, view = sp.piece(k)
        exists = self.decide(as_cond(exists), guard)
        if exists is False:
            return
        if exists is True:
            exists = z3.BoolVal(True)

        def body(g):
            self.assign(st.target, view, fr, g)
            self.exec_block(st.body, fr, g)
            fr.cont = False
            pend = b_or(fr.returned, fr.brk)
            if pend is True:
                return
            if pend is not False:
                self.guarded(b_not(pend), lambda g2: self.for_pieces(st, sp, k + 1, fr, g2), fr, g)
                return
            self.for_pieces(st, sp, k + 1, fr, g)
        if z3.is_true(exists):
            body(guard)
        else:
            self.guarded(exists, body, fr, guard)

    def for_from(self, st, items, k, fr, guard):
        while k < len(items):
            self.assign(st.target, items[k], fr, guard)
            self.exec_block(st.body, fr, guard)
            fr.cont = False
            k += 1
            pend = b_or(fr.returned, fr.brk)
            if pend is True:
                return
            if pend is not False:
                kk = k
                self.guarded(b_not(pend), lambda g: self.for_from(st, items, kk, fr, g), fr, guard)
                return

    def s_While(self, st, fr, guard):
        self.while_from(st, 0, fr, guard)
        fr.brk = False

    def while_from(self, st, k, fr, guard):
        while True:
            c = self.decide(as_cond(self.eval(st.test, fr, guard)), guard)
            if c is False:
                return
            if k >= self.ctx.unwind_map.get(st.lineno, self.ctx.unwind):
                self.ctx.obligations.append((guard, b_not(c), f"unwinding assertion line {st.lineno}"))
                return
            k += 1
            if c is True:
                self.exec_block(st.body, fr, guard)
                fr.cont = False
                pend = b_or(fr.returned, fr.brk)
                if pend is True:
                    return
                if pend is not False:
                    kk = k
                    self.guarded(b_not(pend), lambda g: self.while_from(st, kk, fr, g), fr, guard)
                    return
            else:
                kk = k
                def then(g):
                    self.exec_block(st.body, fr, g)
                    fr.cont = False
                    pend = b_or(fr.returned, fr.brk)
                    if pend is True:
                        return
                    if pend is not False:
                        self.guarded(b_not(pend), lambda g2: self.while_from(st, kk, fr, g2), fr, g)
                        return
                    self.while_from(st, kk, fr, g)
                self.branch(c, then, lambda g: None, fr, guard)
                return

    # ---------- assignment
    def assign(self, t, v, fr, guard):
        if isinstance(t, ast.Name):
            fr.env[t.id] = v
        elif isinstance(t, ast.Tuple):
            vs = list(v) if not isinstance(v, Arr) else [self.arr_get(v, (i,)) for i in range(v.shape[0])]
            assert len(vs) == len(t.elts)
            for tt, vv in zip(t.elts, vs):
                self.assign(tt, vv, fr, guard)
        elif isinstance(t, ast.Subscript):
            base = self.eval(t.value, fr, guard)
            idx = self.eval_index(t.slice, fr, guard)
            if isinstance(base, Arr):
                self.arr_set(base, idx, v, guard)
            elif isinstance(base, (list, dict)):
                if any(is_sym(i) for i in idx):
                    raise Unsupported("symbolic index into python list")
                base[idx[0]] = v
            else:
                raise Unsupported(f"subscript assign on {type(base)}")
        else:
            raise Unsupported(f"assign target {type(t).__name__}")

    def eval_index(self, sl, fr, guard):
        if isinstance(sl, ast.Tuple):
            return tuple(self.eval_index1(e, fr, guard) for e in sl.elts)
        return (self.eval_index1(sl, fr, guard),)

    def eval_index1(self, e, fr, guard):
        if isinstance(e, ast.Slice):
            lo = self.eval(e.lower, fr, guard) if e.lower else None
            hi = self.eval(e.upper, fr, guard) if e.upper else None
            stp = self.eval(e.step, fr, guard) if e.step else None
            return slice(lo, hi, stp)
        return self.eval(e, fr, guard)

    # ---------- arrays
    def arr_view(self, a, idx):
        """apply concrete ints / slices / None; returns Arr or ('cell', pos)"""
        off, shape, strides = a.offset, [], []
        dim = 0
        for i in idx:
            if i is None:
                shape.append(1); strides.append(0)
                continue
            if isinstance(i, slice):
                rng = range(*i.indices(a.shape[dim]))
                shape.append(len(rng))
                strides.append(a.strides[dim] * (rng.step))
                off += a.strides[dim] * rng.start if len(rng) else 0
                dim += 1
                continue
            n = a.shape[dim]
            if not -n <= i < n:
                raise IndexError(f"index {i} out of bounds for axis {dim} size {n}")
            if i < 0:
                i += n
            off += a.strides[dim] * i
            dim += 1
        shape += list(a.shape[dim:]); strides += list(a.strides[dim:])
        if not shape:
            return ("cell", off)
        return Arr(a.sid, off, shape, strides)

    def arr_get(self, a, idx, guard=True):
        idx = tuple(int(i) if hasattr(i, "__index__") and not is_sym(i) and not isinstance(i, slice) and i is not None else i for i in idx)
        sym_pos = [k for k, i in enumerate(idx) if is_sym(i)]
        if isinstance(idx[0], Arr) and len(idx) == 1:
            return self.arr_mask_get(a, idx[0])
        if not sym_pos:
            r = self.arr_view(a, idx)
            if isinstance(r, tuple):
                return self.ctx.heap.st[a.sid][r[1]]
            return r
        k = sym_pos[0]
        dim = sum(1 for i in idx[:k] if i is not None)
        n = a.shape[dim]
        s = idx[k]
        self.ctx.obligations.append((guard, z3.And(s >= 0, s < n), "index in bounds"))
        res = None
        for j in reversed(range(n)):
            v = self.arr_get(a, idx[:k] + (j,) + idx[k + 1:], guard)
            if isinstance(v, Arr):
                raise Unsupported("symbolic index yielding sub-array")
            res = v if res is None else self.ite(s == j, v, res)
        return res

    def arr_set(self, a, idx, v, guard=True):
        idx = tuple(int(i) if hasattr(i, "__index__") and not is_sym(i) and not isinstance(i, slice) and i is not None else i for i in idx)
        if len(idx) == 1 and isinstance(idx[0], Arr):
            return self.arr_mask_set(a, idx[0], v)
        sym_pos = [k for k, i in enumerate(idx) if is_sym(i)]
        st = self.ctx.heap.st[a.sid]
        if not sym_pos:
            r = self.arr_view(a, idx)
            if isinstance(r, tuple):
                st[r[1]] = v
            else:
                for (ix, pos) in r.indices():
                    st[pos] = v if not isinstance(v, Arr) else self.arr_get(v, ix)
            return
        k = sym_pos[0]
        dim = sum(1 for i in idx[:k] if i is not None)
        n = a.shape[dim]
        s = idx[k]
        self.ctx.obligations.append((guard, z3.And(s >= 0, s < n), "index in bounds (store)"))
        for j in range(n):
            sub = idx[:k] + (j,) + idx[k + 1:]
            old = self.arr_get(a, sub, guard)
            if isinstance(old, Arr):
                raise Unsupported("symbolic index store of sub-array")
            # recursive for further symbolic indices
            r = self.arr_view(a, sub) if not any(is_sym(i) for i in sub) else None
            if r is None:
                raise Unsupported("two symbolic indices in store")
            st[r[1]] = self.ite(s == j, v, old)

    def arr_mask_get(self, a, mask):
        raise Unsupported("mask read")

    def arr_mask_set(self, a, mask, v):
        st = self.ctx.heap.st[a.sid]
        for (ix, pos) in a.indices():
            m = self.arr_get(mask, ix)
            vv = v if not isinstance(v, Arr) else self.arr_get(v, ix)
            st[pos] = self.ite(as_cond(m), vv, st[pos]) if as_cond(m) not in (True, False) else (vv if as_cond(m) else st[pos])

    def arr_map(self, f, *xs):
        arrs = [x for x in xs if isinstance(x, Arr)]
        shape = np_broadcast(*[a.shape for a in arrs])
        cells = []
        for ix in itertools.product(*[range(s) for s in shape]):
            vals = []
            for x in xs:
                if isinstance(x, Arr):
                    pad = len(shape) - len(x.shape)
                    jx = tuple(0 if x.shape[d] == 1 else ix[d + pad] for d in range(len(x.shape)))
                    vals.append(self.arr_get(x, jx))
                else:
                    vals.append(x)
            cells.append(f(*vals))
        return Arr.new(self.ctx.heap, shape, cells)

    # ---------- expressions
    def eval(self, e, fr, guard=True):
        m = getattr(self, "e_" + type(e).__name__, None)
        if m is None:
            raise Unsupported(f"expr {type(e).__name__} line {getattr(e, 'lineno', '?')}")
        return m(e, fr, guard)

    def e_Constant(self, e, fr, guard):
        return e.value

    def e_Name(self, e, fr, guard):
        if e.id in fr.env:
            return fr.env[e.id]
        if e.id in fr.globals:
            return fr.globals[e.id]
        import builtins
        return getattr(builtins, e.id)

    def e_Tuple(self, e, fr, guard):
        return tuple(self.eval(x, fr, guard) for x in e.elts)

    def e_List(self, e, fr, guard):
        if self.ctx.bags and not e.elts:
            return MBag()
        return [self.eval(x, fr, guard) for x in e.elts]

    def e_JoinedStr(self, e, fr, guard):
        return "<formatted text>"

    def e_Attribute(self, e, fr, guard):
        base = self.eval(e.value, fr, guard)
        name = e.attr
        if name.startswith("__") and not name.endswith("__") and fr.cls_name:
            name = "_" + fr.cls_name.lstrip("_") + name
        if isinstance(base, Arr):
            if name == "shape":
                return base.shape
            return ("arrmethod", base, name)
        if isinstance(base, type) and name in base.__dict__:
            return base.__dict__[name]
        return getattr(base, name)

    def e_Subscript(self, e, fr, guard):
        base = self.eval(e.value, fr, guard)
        idx = self.eval_index(e.slice, fr, guard)
        if isinstance(base, Arr):
            return self.arr_get(base, idx, guard)
        if isinstance(base, MStr):
            if len(idx) == 1 and isinstance(idx[0], slice) and idx[0].step is None:
                return base.slice(idx[0].start, idx[0].stop)
            if len(idx) == 1 and not isinstance(idx[0], slice):
                i = idx[0] if is_sym(idx[0]) else z3.IntVal(int(idx[0]))
                ok = z3.And(i >= -base.length, i < base.length)
                self.ctx.obligations.append((guard, ok, "string index in range (IndexError otherwise)"))
                j = z3.If(i < 0, i + base.length, i)
                return MStr(base.chars, base.start + j, 1)
            raise Unsupported("string indexing with a stepped slice")
        if isinstance(base, MSplit):
            if len(idx) == 1 and idx[0] == -1:
                return base.last()
            raise Unsupported("split(...)[i] other than [-1]")
        if isinstance(base, (list, tuple)):
            i = idx[0]
            if is_sym(i):
                res = None
                self.ctx.obligations.append((guard, z3.And(i >= 0, i < len(base)), "list index in bounds"))
                for j in reversed(range(len(base))):
                    res = base[j] if res is None else self.ite(i == j, base[j], res)
                return res
            return base[i]
        return base[idx[0]] if len(idx) == 1 else base[idx]

    def e_UnaryOp(self, e, fr, guard):
        v = self.eval(e.operand, fr, guard)
        if isinstance(e.op, ast.USub):
            return -v
        if isinstance(e.op, ast.Not):
            return b_not(as_cond(v))
        raise Unsupported("unary")

    def e_BinOp(self, e, fr, guard):
        return self.binop(e.op, self.eval(e.left, fr, guard), self.eval(e.right, fr, guard))

    def binop(self, op, a, b):
        if isinstance(a, Arr) or isinstance(b, Arr):
            return self.arr_map(lambda x, y: self.binop(op, x, y), a, b)
        if isinstance(a, (list, str, tuple)) and not is_sym(b):
            import operator
            return {ast.Add: operator.add, ast.Mult: operator.mul}[type(op)](a, b)
        a, b = num_coerce(a, b)
        if isinstance(op, ast.Add):
            return a + b
        if isinstance(op, ast.Sub):
            return a - b
        if isinstance(op, ast.Mult):
            r = smart_mul(a, b)
            return r if r is not None else a * b
        if isinstance(op, ast.Div):
            if is_sym(a) and z3.is_int(a):
                a = z3.ToReal(a)
            if is_sym(b) and z3.is_int(b):
                b = z3.ToReal(b)
            if not is_sym(a) and not is_sym(b):
                return a / b
            return a / b
        if isinstance(op, ast.FloorDiv):
            if not is_sym(a) and not is_sym(b):
                return a // b
            if not is_sym(b) and isinstance(b, int) and b > 0 and z3.is_int(a):
                return a / b
            raise Unsupported("floordiv")
        raise Unsupported(f"binop {type(op).__name__}")

    def e_BoolOp(self, e, fr, guard):
        # short-circuit semantics: later operands are evaluated under the guard of the earlier ones
        acc = None
        g = guard
        vals = []
        for v in e.values:
            c = as_cond(self.eval(v, fr, g))
            vals.append(c)
            if isinstance(e.op, ast.And):
                if c is False:
                    break
                g = b_and(g, c)
            else:
                if c is True:
                    break
                g = b_and(g, b_not(c))
        return b_and(*vals) if isinstance(e.op, ast.And) else b_or(*vals)

    def e_Compare(self, e, fr, guard):
        left = self.eval(e.left, fr, guard)
        res = []
        for op, r in zip(e.ops, e.comparators):
            right = self.eval(r, fr, guard)
            res.append(self.cmp(op, left, right))
            left = right
        if len(res) == 1:
            return res[0]
        return b_and(*[as_cond(x) for x in res])

    def cmp(self, op, a, b):
        if isinstance(a, Arr) or isinstance(b, Arr):
            return self.arr_map(lambda x, y: self.cmp(op, x, y), a, b)
        if isinstance(a, MStr) and isinstance(b, str) and isinstance(op, (ast.In, ast.NotIn)):
            r = z3.And(a.length == 1, z3.Or(*[a.char_at(a.start) == ord(ch) for ch in b])) if b else z3.BoolVal(False)
            return r if isinstance(op, ast.In) else z3.Not(r)
        if isinstance(a, MStr) and isinstance(b, (list, tuple)) and all(isinstance(x, str) for x in b) and isinstance(op, (ast.In, ast.NotIn)):
            r = z3.Or(*[a.eq_const(x) for x in b]) if b else z3.BoolVal(False)
            return r if isinstance(op, ast.In) else z3.Not(r)
        if isinstance(a, MStr) and isinstance(b, MStr) and isinstance(op, (ast.Eq, ast.NotEq)):
            r = a.eq_str(b)
            return r if isinstance(op, ast.Eq) else z3.Not(r)
        if isinstance(a, MStr) or isinstance(b, MStr):
            if isinstance(b, MStr):
                a, b = b, a
            if isinstance(b, str) and isinstance(op, (ast.Eq, ast.NotEq)):
                r = a.eq_const(b)
                return r if isinstance(op, ast.Eq) else z3.Not(r)
            raise Unsupported("string comparison other than ==/!= with a constant")
        if isinstance(op, (ast.In, ast.NotIn)):
            if isinstance(b, MSet):
                r = b.contains(a)
                return r if isinstance(op, ast.In) else b_not(r)
            r = a in b
            return r if isinstance(op, ast.In) else not r
        if isinstance(op, (ast.Is, ast.IsNot)):
            r = a is b
            return r if isinstance(op, ast.Is) else not r
        a, b = num_coerce(a, b)
        if isinstance(op, ast.Lt):
            return a < b
        if isinstance(op, ast.LtE):
            return a <= b
        if isinstance(op, ast.Gt):
            return a > b
        if isinstance(op, ast.GtE):
            return a >= b
        if isinstance(op, ast.Eq):
            return a == b
        if isinstance(op, ast.NotEq):
            return a != b
        raise Unsupported("cmp")

    def _comp(self, e, fr, guard):
        """list comprehension / generator expression over concrete iterables (single or nested `for`, optional concrete `if`)"""
        outv = []

        def rec(gi):
            if gi == len(e.generators):
                outv.append(self.eval(e.elt, fr, guard))
                return
            g = e.generators[gi]
            it = self.eval(g.iter, fr, guard)
            if isinstance(it, MSplit):
                # pieces of a symbolic split: existence must be decided by the precondition (no guarded list model)
                items = []
                for k in range(it.max_pieces()):
                    exists, view = it.piece(k)
                    ex_c = self.decide(as_cond(exists), guard)
                    if ex_c is False:
                        break
                    if ex_c is not True and not z3.is_true(ex_c):
                        raise Unsupported("comprehension over a split whose number of pieces is not decided by the precondition")
                    items.append(view)
            else:
                items = [self.arr_get(it, (i,)) for i in range(it.shape[0])] if isinstance(it, Arr) else list(it)
            for x in items:
                self.assign(g.target, x, fr, guard)
                ok = True
                for cond in g.ifs:
                    c = self.decide(as_cond(self.eval(cond, fr, guard)), guard)
                    if c is False or (c is not True and z3.is_false(c)):
                        ok = False
                        break
                    if c is not True and not z3.is_true(c):
                        raise Unsupported("comprehension filtered by a symbolic condition")
                if ok:
                    rec(gi + 1)
        rec(0)
        return outv

    def e_ListComp(self, e, fr, guard):
        return self._comp(e, fr, guard)

    def e_GeneratorExp(self, e, fr, guard):
        return self._comp(e, fr, guard)

    def s_Assert(self, st, fr, guard):
        c = as_cond(self.eval(st.test, fr, guard))
        if c is not True:
            self.ctx.obligations.append((guard, c if c is not False else z3.BoolVal(False), "assert statement holds (AssertionError otherwise)"))

    def e_IfExp(self, e, fr, guard):
        c = self.decide(as_cond(self.eval(e.test, fr, guard)), guard)
        if c is True:
            return self.eval(e.body, fr, guard)
        if c is False:
            return self.eval(e.orelse, fr, guard)
        return self.ite(c, self.eval(e.body, fr, b_and(guard, c)), self.eval(e.orelse, fr, b_and(guard, b_not(c))))

    def e_Call(self, e, fr, guard):
        f = self.eval(e.func, fr, guard)
        args = [self.eval(a, fr, guard) for a in e.args]
        kwargs = {k.arg: self.eval(k.value, fr, guard) for k in e.keywords}
        return self.call(f, args, kwargs, guard)

    def call(self, f, args, kwargs, guard):
        self.cur_guard = guard
        if isinstance(f, tuple) and f and f[0] == "arrmethod":
            return self.models["arr." + f[2]](self, f[1], *args, **kwargs)
        if isinstance(getattr(f, "__self__", None), (MSet, MStr, MSplit, MBag)):
            return f(*args, guard=guard, **kwargs)
        if self.ctx.bags and f is set and not args:
            return MBag()
        if f is print:
            return None
        key = f
        try:
            if key in self.models:
                return self.models[key](self, *args, **kwargs)
        except TypeError:
            pass
        pf = getattr(f, "py_func", None)
        if isinstance(f, staticmethod):
            return self.call_function(f, args, kwargs, guard)
        if pf is not None or (inspect.isfunction(f) and f.__module__.startswith("corankco")) or hasattr(f, "__wrapped__"):
            return self.call_function(f, args, kwargs, guard)
        if any(is_sym(a) or isinstance(a, Arr) for a in list(args) + list(kwargs.values())):
            raise Unsupported(f"call {f} with symbolic args")
        return f(*args, **kwargs)


def linearize(e):
    """int expr that is a +/- combination of ite(c, a, b) with integer constants -> (const, [(coef, cond)])"""
    if z3.is_int_value(e):
        return e.as_long(), []
    if z3.is_app(e):
        k = e.decl().kind()
        ch = e.children()
        if k == z3.Z3_OP_ITE and z3.is_int_value(ch[1]) and z3.is_int_value(ch[2]):
            a, b = ch[1].as_long(), ch[2].as_long()
            return b, [(a - b, ch[0])]
        if k == z3.Z3_OP_ADD:
            c, ts = 0, []
            for x in ch:
                r = linearize(x)
                if r is None:
                    return None
                c += r[0]; ts += r[1]
            return c, ts
        if k == z3.Z3_OP_SUB:
            r0 = linearize(ch[0])
            if r0 is None:
                return None
            c, ts = r0[0], list(r0[1])
            for x in ch[1:]:
                r = linearize(x)
                if r is None:
                    return None
                c -= r[0]; ts += [(-a, cnd) for a, cnd in r[1]]
            return c, ts
        if k == z3.Z3_OP_UMINUS:
            r = linearize(ch[0])
            if r is None:
                return None
            return -r[0], [(-a, cnd) for a, cnd in r[1]]
        if k == z3.Z3_OP_MUL and len(ch) == 2 and z3.is_int_value(ch[0]):
            r = linearize(ch[1])
            if r is None:
                return None
            m = ch[0].as_long()
            return m * r[0], [(m * a, cnd) for a, cnd in r[1]]
    return None


def smart_mul(a, b):
    """real * (sum of 0/1 indicators) is distributed so the query stays linear"""
    if is_sym(a) and is_sym(b):
        if z3.is_int(a) and z3.is_real(b):
            a, b = b, a
        if z3.is_real(a) and z3.is_int(b):
            lin = linearize(b)
            if lin is not None:
                c, ts = lin
                return a * c + sum(z3.If(cnd, a * k, 0) for k, cnd in ts)
    return None


def num_coerce(a, b):
    if is_sym(a) and not is_sym(b):
        if isinstance(b, float):
            b = to_z3(b)
            if z3.is_int(a):
                a = z3.ToReal(a)
        elif isinstance(b, bool):
            b = int(b)
    elif is_sym(b) and not is_sym(a):
        if isinstance(a, float):
            a = to_z3(a)
            if z3.is_int(b):
                b = z3.ToReal(b)
        elif isinstance(a, bool):
            a = int(a)
    return a, b


def np_broadcast(*shapes):
    n = max(len(s) for s in shapes)
    out = []
    for d in range(n):
        dims = [s[d - (n - len(s))] for s in shapes if d - (n - len(s)) >= 0]
        m = max(dims)
        assert all(x in (1, m) for x in dims), shapes
        out.append(m)
    return tuple(out)


# ------------------------------------------------------------------ helpers for harnesses
def new_interp(unwind=16, unwind_map=None):
    from vf import npmodels
    ctx = Ctx(unwind=unwind)
    if unwind_map:
        ctx.unwind_map.update(unwind_map)
    I = Interp(ctx, {})
    npmodels.install(I)
    return I


def sym_array(I, name, shape, sort="int"):
    """fresh symbolic array; returns (Arr, nested list of z3 vars in C order)"""
    shape = tuple(shape)
    mk = z3.Int if sort == "int" else z3.Real
    flat = []
    for idx in itertools.product(*[range(s) for s in shape]):
        flat.append(mk(name + "_" + "_".join(map(str, idx))))
    return Arr.new(I.ctx.heap, shape, flat), flat


def const_array(I, shape, values):
    return Arr.new(I.ctx.heap, tuple(shape), list(values))


def cells_of(I, a):
    return [I.ctx.heap.st[a.sid][pos] for _, pos in a.indices()]


def cell(I, a, idx):
    return I.arr_get(a, tuple(idx))


def discharge_obligations(I, s, extra_pre=()):
    """index-in-bounds and unwinding obligations: pre /\\ guard /\\ not(formula) must be unsat.
    returns list of (text, verdict, model) for the ones that are not unsat"""
    from vf import harness
    bad = []
    for (g, f, txt) in I.ctx.obligations:
        s.push()
        for p in extra_pre:
            s.add(p)
        if g is not True:
            s.add(to_z3(g))
        s.add(z3.Not(to_z3(f)))
        kind = "unwinding" if txt.startswith("unwinding") else "index-bounds"
        r = harness.check(s, kind)
        if r != "unsat":
            bad.append((txt, r, s.model() if r == "sat" else None))
        s.pop()
    return bad
