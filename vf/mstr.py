"""Bounded symbolic strings for Engine M (used by C18).

A string is a view (start, length) on a buffer of L symbolic code points (z3 Ints); every derived string (strip, slice,
split piece) is another view on the same buffer, single-character replace maps the buffer.  Only the `str` operations the
hand-written scanner of corankco.utils uses are modelled, with Python's semantics (slice / find index normalisation,
whitespace set of str.strip for code points < 128).  All methods also accept concrete Python ints for indices.
"""
import z3

WS = (9, 10, 11, 12, 13, 28, 29, 30, 31, 32)
SIDE = []       # (guard, condition, text): side conditions of the model itself, discharged by the check that uses it


def _ite(c, a, b):
    if c is True:
        return a
    if c is False:
        return b
    return z3.If(c, a, b)


def _z(x):
    return x if isinstance(x, z3.ExprRef) else z3.IntVal(int(x))


def is_ws(c):
    return z3.Or(*[c == w for w in WS])


class MStr:
    def __init__(self, chars, start, length):
        self.chars = chars if isinstance(chars, list) else list(chars)
        self.start = _z(start)
        self.length = _z(length)
        self.L = len(self.chars)

    # ---- helpers
    def in_view(self, p):
        return z3.And(self.start <= p, p < self.start + self.length)

    def char_at(self, pos):
        """code point at absolute buffer position pos (symbolic); -1 outside the buffer"""
        res = z3.IntVal(-1)
        for p in reversed(range(self.L)):
            res = z3.If(pos == p, self.chars[p], res)
        return res

    def norm(self, i, default):
        """Python slice-index normalisation relative to this view"""
        if i is None:
            return _z(default)
        i = _z(i)
        return z3.If(i < 0, z3.If(i + self.length < 0, 0, i + self.length), z3.If(i > self.length, self.length, i))

    # ---- str API used by the scanner
    def strip(self, chars=None, guard=True):
        first = z3.IntVal(-1)
        for p in reversed(range(self.L)):
            first = z3.If(z3.And(self.in_view(p), z3.Not(is_ws(self.chars[p]))), p, first)
        last = z3.IntVal(-1)
        for p in range(self.L):
            last = z3.If(z3.And(self.in_view(p), z3.Not(is_ws(self.chars[p]))), p, last)
        return MStr(self.chars, z3.If(first == -1, self.start, first), z3.If(first == -1, 0, last - first + 1))

    def _edges(self):
        first = z3.IntVal(-1)
        for p in reversed(range(self.L)):
            first = z3.If(z3.And(self.in_view(p), z3.Not(is_ws(self.chars[p]))), p, first)
        last = z3.IntVal(-1)
        for p in range(self.L):
            last = z3.If(z3.And(self.in_view(p), z3.Not(is_ws(self.chars[p]))), p, last)
        return first, last

    def lstrip(self, chars=None, guard=True):
        first, last = self._edges()
        return MStr(self.chars, z3.If(first == -1, self.start, first), z3.If(first == -1, 0, self.start + self.length - first))

    def rstrip(self, chars=None, guard=True):
        first, last = self._edges()
        return MStr(self.chars, self.start, z3.If(first == -1, 0, last - self.start + 1))

    def replace(self, a, b, guard=True):
        if isinstance(a, str) and len(a) >= 2 and b == "":
            # removal of a multi-character pattern is modelled as the identity, under the side condition (to be proved by the
            # check, otherwise the run is inconclusive) that the pattern does not occur in the view
            k = len(a)
            occ = [z3.And(self.in_view(p), self.in_view(p + k - 1), *[self.chars[p + j] == ord(a[j]) for j in range(k)]) for p in range(self.L - k + 1)]
            SIDE.append((guard, z3.Not(z3.Or(*occ)) if occ else z3.BoolVal(True), f"string model limit: replace({a!r}, '') modelled as the identity"))
            return self
        if not (isinstance(a, str) and isinstance(b, str) and len(a) == 1 and len(b) == 1):
            raise NotImplementedError("replace of single concrete characters only")
        return MStr([z3.If(c == ord(a), ord(b), c) for c in self.chars], self.start, self.length)

    def find(self, ch, lo=None, hi=None, guard=True):
        if not (isinstance(ch, str) and len(ch) == 1):
            raise NotImplementedError("find of a single concrete character only")
        lo_, hi_ = self.norm(lo, 0), self.norm(hi, self.length)
        res = z3.IntVal(-1)
        for p in reversed(range(self.L)):
            rel = p - self.start
            res = z3.If(z3.And(self.in_view(p), rel >= lo_, rel < hi_, self.chars[p] == ord(ch)), rel, res)
        return res

    def rfind(self, ch, lo=None, hi=None, guard=True):
        if not (isinstance(ch, str) and len(ch) == 1):
            raise NotImplementedError("rfind of a single concrete character only")
        lo_, hi_ = self.norm(lo, 0), self.norm(hi, self.length)
        res = z3.IntVal(-1)
        for p in range(self.L):
            rel = p - self.start
            res = z3.If(z3.And(self.in_view(p), rel >= lo_, rel < hi_, self.chars[p] == ord(ch)), rel, res)
        return res

    def slice(self, lo, hi):
        lo_, hi_ = self.norm(lo, 0), self.norm(hi, self.length)
        return MStr(self.chars, self.start + lo_, z3.If(hi_ > lo_, hi_ - lo_, 0))

    def endswith(self, suffix, guard=True):
        k = len(suffix)
        cs = [self.length >= k]
        for j, c in enumerate(suffix):
            cs.append(self.char_at(self.start + self.length - k + j) == ord(c))
        return z3.And(*cs)

    def startswith(self, prefix, guard=True):
        cs = [self.length >= len(prefix)]
        for j, c in enumerate(prefix):
            cs.append(self.char_at(self.start + j) == ord(c))
        return z3.And(*cs)

    def eq_const(self, s):
        cs = [self.length == len(s)]
        for j, c in enumerate(s):
            cs.append(self.char_at(self.start + j) == ord(c))
        return z3.And(*cs)

    def eq_str(self, other):
        """equality of two views (possibly on different buffers)"""
        n = min(self.L, other.L)
        return z3.And(self.length == other.length,
                      *[z3.Implies(k < self.length, self.char_at(self.start + k) == other.char_at(other.start + k)) for k in range(n)])

    def split(self, sep=None, maxsplit=-1, guard=True):
        if not (isinstance(sep, str) and len(sep) == 1):
            raise NotImplementedError("split on a single concrete character only")
        return MSplit(self, sep)

    def isdigit(self, guard=True):
        return z3.And(self.length > 0, *[z3.Implies(self.in_view(p), z3.And(self.chars[p] >= 48, self.chars[p] <= 57)) for p in range(self.L)])

    def value(self, model):
        from vf import harness
        st, ln = harness.zval(model, self.start), harness.zval(model, self.length)
        return "".join(chr(harness.zval(model, self.chars[p])) for p in range(max(st, 0), min(st + ln, self.L)))


class MSplit:
    """lazy result of s.split(sep): pieces are views between consecutive separators"""
    def __init__(self, s, sep):
        self.s, self.sep = s, ord(sep)
        self.is_sep = [z3.And(s.in_view(p), s.chars[p] == self.sep) for p in range(s.L)]
        # cnt[p] = number of separators in the view at buffer positions < p
        self.cnt = [z3.IntVal(0)]
        for p in range(s.L):
            self.cnt.append(self.cnt[-1] + z3.If(self.is_sep[p], 1, 0))
        self.nsep = self.cnt[-1]

    def sep_pos(self, j):
        """absolute position of the j-th separator (1-based); meaningful only if j <= nsep"""
        return z3.Sum([z3.If(z3.And(self.is_sep[p], self.cnt[p] == j - 1), p, 0) for p in range(self.s.L)])

    def piece(self, k):
        """(exists, view) of the k-th piece (0-based)"""
        s = self.s
        start = s.start if k == 0 else self.sep_pos(k) + 1
        end = z3.If(self.nsep >= k + 1, self.sep_pos(k + 1), s.start + s.length)
        return self.nsep >= k, MStr(s.chars, start, end - start)

    def last(self):
        s = self.s
        start = z3.If(self.nsep == 0, s.start, self.sep_pos_last() + 1)
        return MStr(s.chars, start, s.start + s.length - start)

    def sep_pos_last(self):
        res = z3.IntVal(0)
        for p in range(self.s.L):
            res = z3.If(self.is_sep[p], p, res)
        return res

    def max_pieces(self):
        return self.s.L + 1


class MBag:
    """a container filled under guards (models `set()` / `[]` that the scanner fills): list of (guard, item)"""
    def __init__(self):
        self.items = []

    def add(self, x, guard=True):
        self.items.append((guard, x))

    append = add
