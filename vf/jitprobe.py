"""Conformance probe run in a separate process with numba's JIT ENABLED (the symbolic engines execute the kernels' Python
source with the JIT off; typed signatures and dtype dispatch of the compiled kernels are therefore outside the encoding).
Reads a JSON list of jobs {config, rankings, scheme_written, flag} on stdin, runs each against the real library and writes
one JSON outcome per job: predicate answer, exception (type, message) or the consensus rankings."""
import json, sys


def main():
    from vf import sweep
    jobs = json.load(sys.stdin)
    out = []
    for p in jobs:
        r = {"rel": None, "exc": None, "consensus": None, "complete": None}
        try:
            ds, sc, alg, cons, exc, _ = sweep.concrete_run(p)
            uni = {x for rk in p["rankings"] for b in rk for x in b}
            r["complete"] = all({x for b in rk for x in b} == uni for rk in p["rankings"])
            try:
                rel = alg.is_scoring_scheme_relevant_when_incomplete_rankings(sc)
                r["rel"] = rel if isinstance(rel, bool) else repr(rel)
            except Exception as e:  # noqa
                r["rel"] = f"raised {type(e).__name__}: {e}"
            if exc is not None:
                r["exc"] = [type(exc).__name__, str(exc)[:300]]
            else:
                r["consensus"] = [[[[type(e.value).__name__, e.value] for e in b] for b in rk] for rk in cons.consensus_rankings]
        except Exception as e:  # noqa
            r["exc"] = [type(e).__name__, "outside compute: " + str(e)[:300]]
        out.append(r)
    json.dump(out, sys.stdout)


if __name__ == "__main__":
    main()
