#!/bin/sh
# Builds the overlay venv /verif/.venv = /venv (the repository's own environment) + z3-solver, cvc5 from the
# offline wheelhouse.  Idempotent; needs no network.
set -e
cd "$(dirname "$0")"
if [ ! -x .venv/bin/python ] || ! .venv/bin/python -c "import z3, numpy, numba, pulp, igraph" 2>/dev/null; then
  rm -rf .venv
  /venv/bin/python -m venv .venv
  SP=$(.venv/bin/python -c "import site; print(site.getsitepackages()[0])")
  echo "import site; site.addsitedir('/venv/lib/python3.12/site-packages')" > "$SP/_base.pth"
  PIP_NO_INDEX=1 .venv/bin/python -m pip install -q --no-index --find-links /opt/veriftools/wheels z3-solver cvc5 >/dev/null 2>&1 \
    || PIP_NO_INDEX=1 .venv/bin/python -m pip install -q --no-index --find-links /opt/veriftools/wheels z3-solver
fi
.venv/bin/python -c "import z3; print('z3', z3.get_version_string())"
