"""profile sweep items: PYTHONPATH=/verif:/repo .venv/bin/python tools/profile_items.py <cfg> <stratum|n,m> [k] [timeout_s]"""
import os, sys, time, signal, random
os.environ["NUMBA_DISABLE_JIT"] = "1"
sys.path[:0] = ["/verif", "/repo"]
from vf import fork, harness, sweep, shapes
cfg, what = sys.argv[1], sys.argv[2]
k = int(sys.argv[3]) if len(sys.argv) > 3 else 5
tmo = int(sys.argv[4]) if len(sys.argv) > 4 else 60
pool = sweep.STRATA[what]() if what in sweep.STRATA else sweep.dataset_pool(*map(int, what.split(",")))
random.Random(0).shuffle(pool)
class TO(Exception): pass
def h(*a): raise TO()
signal.signal(signal.SIGALRM, h)
for lvs in pool[:k]:
    harness.STATS.__init__(); t = time.time()
    signal.alarm(tmo)
    try:
        fam = (os.environ["FAM"],) if os.environ.get("FAM") else ()
        out = sweep.run_item((cfg, lvs, sweep.NAMINGS[len(lvs[0])][0], True, ["wellformed"]) + fam)
        res = f"ok {len(out)}"
    except TO:
        res = "TIMEOUT"
    except BaseException as e:
        res = f"{type(e).__name__}: {str(e)[:100]}"
    signal.alarm(0)
    print(cfg, lvs, "paths", harness.STATS.paths, "%.1fs" % (time.time() - t), res, flush=True)
