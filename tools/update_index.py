#!/usr/bin/env python3
"""adds a row to seeded/INDEX.md for every seeded/<id>/ directory that has none yet (existing rows and notes are kept)"""
import json, os, re
here = os.path.dirname(os.path.dirname(os.path.abspath(__file__)))
idx = os.path.join(here, "seeded", "INDEX.md")
lines = open(idx).read().splitlines()
head = [l for l in lines if not l.startswith("| C")]
rows = {l.split("|")[1].strip(): l for l in lines if l.startswith("| C")}
notes = dict(a.split("=", 1) for a in os.environ.get("NOTES", "").split(";;") if "=" in a)
for d in sorted(os.listdir(os.path.join(here, "seeded"))):
    mp = os.path.join(here, "seeded", d, "meta.json")
    if d in rows and d not in notes or not os.path.exists(mp):
        continue
    m = json.load(open(mp))
    desc = re.sub(r"\s+", " ", str(m.get("description") or m.get("change", "")))[:140].replace("|", "/")
    res = " ".join(m.get("checks_run", []))
    rows[d] = f"| {d} | {m.get('property', d[:3])} | {desc} | {res} | {notes.get(d, '')} |"
key = lambda k: (k[:3], 0 if "-r" not in k else int(re.search(r"-r(\d+)", k).group(1)), k)
open(idx, "w").write("\n".join(head[:6] + [rows[k] for k in sorted(rows, key=key)] + [l for l in head[6:] if l.strip()]) + "\n")
print(len(rows), "rows")
