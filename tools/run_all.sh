#!/bin/bash
# runs every claimed check of the given tier sequentially; prints one line per check
cd "$(dirname "$0")/.."
TIER=${1:-quick}; mkdir -p out
for pid in $(python3 -c "import json;print(' '.join(c['property_id'] for c in json.load(open('MANIFEST.json'))['checks']))"); do
  s=$(date +%s)
  timeout ${2:-1500} ./check $pid $TIER > out/last_$pid.log 2>&1; rc=$?
  echo "$pid rc=$rc $(( $(date +%s) - s ))s $(grep -ac '^VIOLATION' out/last_$pid.log) violations; $(grep -a "^\[$pid" out/last_$pid.log | cut -c1-60)"
done
