#!/bin/bash
# tools/mutant.sh <worktree> <k> <name> <PID> [<PID>...]
# 1. confirms in the scratch worktree: with patch<k>.diff the 52 tests pass and demo<k>.py fails; without it the demo passes
# 2. applies the patch to /repo, runs the quick checks of the listed properties, and undoes it straight afterwards
# 3. stores patch, demo, meta.json under /verif/seeded/<name>/
set -u
WT=$1; K=$2; NAME=$3; shift 3
P=$WT/mutant/patch$K.diff; D=$WT/mutant/demo$K.py
OUT=/verif/seeded/$NAME; mkdir -p $OUT
cd $WT && git checkout -q -- corankco
git apply $P || { echo "patch does not apply in worktree"; exit 2; }
T=$(/venv/bin/python -m pytest -q -p no:cacheprovider tests 2>&1 | tail -1)
PYTHONPATH=$WT /venv/bin/python $D > $OUT/demo_with.log 2>&1; DW=$?
git checkout -q -- corankco
PYTHONPATH=$WT /venv/bin/python $D > $OUT/demo_without.log 2>&1; DN=$?
echo "tests(with patch): $T | demo with patch rc=$DW | demo without rc=$DN"
cp $P $OUT/patch.diff; cp $D $OUT/demo.py
RES=""
cd /repo && { git apply $P 2>/dev/null || git apply --3way $P; } || { echo "patch does not apply to /repo"; git -C /repo reset -q --hard HEAD; exit 2; }
for PID in "$@"; do
  cd /verif && ./check $PID quick > $OUT/check_$PID.log 2>&1; RC=$?
  V=$(grep -c '^VIOLATION' $OUT/check_$PID.log)
  echo "  check $PID: rc=$RC violations=$V $(grep -m1 'what:' $OUT/check_$PID.log | cut -c1-160)"
  RES="$RES $PID:rc=$RC"
done
cd /repo && git reset -q --hard HEAD && git status --short | head -3
# evidence written while the change was applied must not stay in /verif/evidence
git -C /verif checkout -q -- evidence 2>/dev/null
python3 - "$WT/mutant/meta$K.json" "$OUT/meta.json" "$T" "$DW" "$DN" "$RES" <<'PY'
import json,sys
src,dst,t,dw,dn,res=sys.argv[1:7]
try: m=json.load(open(src))
except Exception: m={}
m["confirmed"]={"tests_with_patch":t,"demo_rc_with_patch":int(dw),"demo_rc_without_patch":int(dn),
  "commands":["git apply patch.diff && /venv/bin/python -m pytest -q -p no:cacheprovider tests","PYTHONPATH=<worktree> /venv/bin/python demo.py (with and without the patch)","git -C /repo apply patch.diff; ./check <PID> quick; git -C /repo checkout -- ."]}
m["checks_run"]=res.split()
json.dump(m,open(dst,"w"),indent=1)
PY
