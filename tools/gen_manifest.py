#!/usr/bin/env python3
"""Regenerates /verif/MANIFEST.json from the table below (kept next to the checks so the two stay in step)."""
import json, os

HERE = os.path.dirname(os.path.dirname(os.path.abspath(__file__)))
TB = ("z3 5.1 (verdicts), Engine M / Engine F of /verif/vf (validated differentially against the real functions on every "
      "run), the oracle in vf/spec.py written from the statement, float64 modelled as exact reals")

CHECKS = {
    "C02": dict(
        technique="bounded symbolic execution of the real kernel source (merge-mode interpreter) + per-cell z3 queries; fork-mode "
                  "execution of the real glue with a symbolic scoring scheme",
        text="Bounded model checking of _pairwise_cost_matrix_only as read from /repo on this run: for every level matrix with "
             "n<=4,m<=3 (thorough n<=5,m<=4; isomorphism queries at 3x3 and 4x2) and every valid scheme (12 reals) each table cell equals the definition, the table is "
             "mirror-consistent and invariant under order-isomorphic matrices [solver-quantified]; the Dataset->matrix->table->"
             "Kemeny-sum glue is executed natively on enumerated real datasets (n<=3,m<=2 exhaustive + n=4 samples) with the scheme "
             "symbolic [shape-enumerated x solver-quantified].",
        design="4/C02"),
    "C01": dict(
        technique="fork-mode symbolic execution of the real get_kemeny_score with 12 symbolic penalties (z3 refutes impl != "
                  "definition per enumerated dataset/candidate shape); merge-mode bounded symbolic execution of __merge",
        text="For every enumerated (dataset, candidate) shape with n<=3, m<=2 with up to one extra candidate element, plus n=4,m=2 samples (thorough m<=3, n=4 exhaustive for m=1) the real scoring code is run "
             "with the 12 penalties symbolic and z3 refutes 'exists a valid scheme with impl != definition'; candidates lacking an "
             "element must raise the dedicated exception; the merge-sort counting kernel is checked for all sorted arrays up to "
             "3+3 (quick: 3+2 and 1+3) with unwinding and index obligations.",
        design="4/C01"),
    "C03": dict(
        technique="fork-mode symbolic execution of every algorithm configuration (scheme symbolic, pivots and ILP optima as "
                  "nondeterministic choices, all feasible paths); merge-mode check of the bucket renumbering kernels",
        text="All 19 configurations are executed on enumerated datasets (n<=3 exhaustive for light algorithms, samples for "
             "BioConsert-based ones and n=4) with the scheme symbolic; every feasible path (every pivot sequence, every optimum "
             "the ILP stand-in may return) must yield a well-formed consensus; _change_bucket/_add_bucket are proved to keep "
             "dense numbering from any dense vector (n<=4, thorough 5).",
        design="4/C03"),
    "C04": dict(
        technique="fork-mode symbolic execution of every configuration with z3 refuting |reported - definition| > 1e-6 on each "
                  "path; merge-mode inductive checks of BioConsert's score bookkeeping kernels",
        text="On every feasible path of every configuration the reported Kemeny score equals the definition score of each "
             "returned ranking for all penalties compatible with the path; BioConsert's initial score and incremental deltas "
             "are checked inductively from any dense state and any cost table (n<=4, thorough 5); the PuLP stand-in is compared "
             "with real PuLP+CBC on corner instances; one algorithm object on two datasets, both scores read afterwards.",
        design="4/C04"),
    "C08": dict(
        technique="merge-mode bounded symbolic execution of the BioConsert kernels as an inductive step (any dense ranking, any "
                  "mirror-consistent cost table) + fork-mode end-to-end runs with z3 refuting an improving single move",
        text="Inductive: searches, moves and one iteration of the local-search loop body are verified from any state satisfying "
             "the invariant (n<=4, thorough 5), which covers local searches of any length; end to end: for each returned ranking "
             "of BioConsert/BioCo variants on enumerated datasets the solver refutes a single-element move gaining > 0.001 over "
             "all valid schemes on the path.",
        design="4/C08"),
    "C09": dict(
        technique="fork-mode symbolic execution of BioConsert with recorded starters; z3 refutes score(result) > score(start) per "
                  "path; merge-mode check of the per-departure glue with a contract stub for the local search",
        text="For each configuration (no starters, Copeland, Borda/BioCo, KwikSort with arbitrary pivots, PickAPerm, two at once) "
             "and each enumerated dataset, on every path the result is at most every starting point and all returned rankings "
             "share a score, for all valid schemes on the path.",
        design="4/C09"),
    "C05": dict(
        technique="fork-mode symbolic execution of the real ILP model building/decoding with solver stand-ins returning any "
                  "optimal solution (z3 all-SAT over the recorded rows, optimum as a forked choice); z3 refutes score(r) > score(w)",
        text="For the PuLP model, the CPLEX model (optimisations on/off, paper variant) and the selector with the CPLEX API present / "
             "absent, on every path (arcs of the graph of elements, optimum picked by the stand-in) the returned ranking is proved "
             "minimal against all rankings with ties for all valid schemes on the path (n<=3 + Condorcet strata, n=4 samples); the "
             "all-optima mode returns exactly the minimisers; the recorded rows admit exactly the rankings with ties (n<=4); the "
             "position-only models are also run on symbolic datasets (level vectors as z3 ints: all datasets with n<=3, m<=2 at once).",
        design="4/C05",
        note=TB + "; ILP solver stand-in contract: returns an optimal solution of the model it was given (CPLEX is not installed; "
                  "PuLP+CBC is used in replays)"),
    "C11": dict(
        technique="merge-mode bounded symbolic execution of _where_should_it_be (symbolic positions and scheme) + fork-mode "
                  "execution of KwikSort with the random pivot as a nondeterministic choice (all pivot sequences)",
        text="The pivot comparison is proved equal to the cheapest-placement rule for all position vectors (m<=3, thorough 4) and all "
             "valid schemes; end to end, for every enumerated dataset, every pivot sequence and every region of schemes, each element "
             "sits relative to its step's pivot as the definition says and coherent preferences force the result; a reuse-after-"
             "in-place-mutation history is included; both checks also on symbolic datasets ((2,2),(3,1),(3,2)).",
        design="4/C11"),
    "C13": dict(
        technique="merge-mode bounded symbolic execution of _fill_dicts_copeland on a symbolic cost table + fork-mode execution of "
                  "CopelandMethod with symbolic scheme (sort order decided by forks)",
        text="Scores and victory/equality/defeat counts equal the definition for any mirror-consistent table (n<=4, thorough 5); end "
             "to end the ranking is by decreasing definition score, tied iff equal, and the feature dictionaries hold the definition's "
             "numbers, for all valid schemes on each path; also on symbolic datasets ((2,2),(3,1),(3,2),(2,3); thorough (4,1),(2,4)).",
        design="4/C13"),
    "C19": dict(
        technique="fork-mode symbolic execution of ScoringScheme's constructor, __mul__, equivalence tests and nickname on fully "
                  "symbolic penalties (12 / 24 reals, symbolic factor); z3 (linear and non-linear real arithmetic) decides each path",
        text="Every feasible path of each method is explored with all numbers symbolic; outcome <=> specification is proved per path: "
             "constructor acceptance/exception, scaling (values, freshness, Kemeny-score homogeneity), proportionality on both vectors, "
             "nickname; malformed shapes/types are enumerated.",
        design="4/C19"),
    "C06": dict(
        technique="fork-mode symbolic execution of parcons_partition and of ParCons (scheme symbolic, arcs of the graph of elements "
                  "decided by solver-checked forks, ILP stand-in, recorded auxiliary); z3 refutes min-over-consistent > global min",
        text="On every path of the partition code the solver refutes 'no optimal consensus is consistent with the partition' (min as "
             "ite-chains over all rankings with ties, n<=4); ParCons with bounds above/below component sizes, CPLEX stand-in/absent: "
             "consensus consistent with the reported weak partitioning = library partition, flag exactly 'nothing delegated', flagged "
             "results proved optimal; multi-component strata up to n=7; the partition is also checked on symbolic datasets (all datasets "
             "with (n,m) in {(2,2),(3,1),(3,2),(2,3)}, thorough (4,1),(2,4), and all valid schemes in one exploration each).",
        design="4/C06",
        note=TB + "; ILP stand-in contract; real igraph on concrete graphs"),
    "C07": dict(
        technique="fork-mode symbolic execution of parfront_partition (scheme symbolic, robust arcs decided by solver-checked forks); "
                  "z3 refutes 'a ranking not strictly consistent with the partition is optimal'; exhaustive pairs for consistent_with",
        text="Per path: partition of the universe, merge of consecutive ParCons groups, and no inconsistent ranking can be optimal for "
             "any valid scheme on the path (n<=4 + Condorcet strata); consistent_with is compared with the stated relation on every "
             "(partition, consensus) pair over <=3 (thorough 4) elements (declared enumeration); the partition part also on symbolic "
             "datasets (sizes as C06) and on aggregate / edit-in-place / aggregate-again histories.",
        design="4/C07"),
    "C10": dict(
        technique="fork-mode symbolic execution of PickAPerm with a symbolic scheme (scheme class decided by the library's own test); "
                  "z3 proves minimality / completeness of the returned set and the refusal rule per path",
        text="Per enumerated dataset and flag, on every path: returned rankings are (unified) inputs, minimal among the inputs for all "
             "schemes on the path, every missing distinct input is strictly worse, incomplete data accepted iff the scheme is a positive "
             "multiple of the unifying scheme on both vectors; same-object histories and datasets whose element names mimic the textual delimiters included.",
        design="4/C10"),
    "C12": dict(
        technique="fork-mode symbolic execution of BordaCount (both variants) with a symbolic scheme; exact-fraction oracle of the two "
                  "documented regimes; z3 proves the regime/refusal matches the scheme family on each path",
        text="Per enumerated dataset the result equals the oracle ranking of the regime the statement prescribes for the scheme family "
             "holding on the path (proved by the solver over the whole family and all its multiples), refusal only outside the four "
             "families on incomplete data; history with in-place removal included.",
        design="4/C12"),
    "C14": dict(
        technique="fork-mode symbolic execution of the applicability predicate followed by compute_consensus_rankings on the same "
                  "objects, for every (nested) configuration, scheme symbolic",
        text="On every path the predicate answers a bool without failing; complete data is never refused; declared-relevant implies a "
             "well-formed consensus on incomplete data; Borda / PickAPerm / BioConsert started from them refuse exactly when they "
             "declared the scheme not relevant. A conformance step (not solver-decided) runs every configuration with the JIT on for "
             "schemes written with ints / floats / both.",
        design="4/C14"),
    "C15": dict(
        technique="fork-mode execution monitor: canonical snapshots of Dataset / ScoringScheme around every operation of enumerated "
                  "operation sequences, shared objects vs fresh copies with pinned nondeterminism; solver decides path feasibility and "
                  "score equalities",
        text="For sampled datasets (n<=3) and every single operation plus sampled ordered pairs of operations on shared objects: inputs "
             "unchanged after every operation, same consensus on fresh copies, deterministic algorithms repeatable, user-built Consensus "
             "objects scored in sequence get the definition score. Mostly structural "
             "per path (declared), scheme symbolic.",
        design="4/C15"),
    "C16": dict(
        technique="fork-mode differential execution of Dataset mutators against a reference model over enumerated histories, removal "
                  "sets forked, presence-rate threshold a symbolic real decided by z3",
        text="After construction and after every step of every history of <=2 (thorough 3) mutator calls all views (buckets, positions, "
             "domains, id maps, types, flags, matrices, unified rankings/dataset, all projections) equal the model, also after a refused "
             "(nothing would remain) call; for the rate filter "
             "the solver proves 'removed <=> presence/m < t' over each path's threshold region.",
        design="4/C16"),
    "C18": dict(
        technique="merge-mode bounded symbolic execution of parse_ranking_with_ties, write_rankings and get_rankings_from_file with a bounded symbolic string model (views on a "
                  "buffer of symbolic code points; strip/split/find/slice with CPython semantics); z3 discharges unwinding, index and "
                  "round-trip obligations",
        text="Totality: for every string of length <= 9 (thorough 12) over code points 0..127 every raise reached is a ValueError, string "
             "indices are in range and both loops exit within the bound; round trip: for 240 templates rendered like str(Ranking) (both "
             "notations, name prefix, surrounding whitespace, <= 3 buckets x 2 elements of 1-3 symbolic characters) the parser returns "
             "exactly the template's buckets; the string model is compared with CPython on random strings on every run. File round trip: "
             "write_rankings and get_rankings_from_file executed on a modelled file (buffer of code points; modelled directory tree, six ways of naming the fresh file) for files of 1-3 template "
             "rankings incl. the empty ranking: no exception and the reader hands to the (stubbed) parser exactly the lines written, in "
             "order, also when the int parser refuses a line. The OS file layer and Dataset.__eq__ (C17) are outside the claim.",
        design="4/C18"),
    "C20": dict(
        technique="merge-mode bounded symbolic execution of the six Markov moves and the two step functions as an inductive step "
                  "(any vector satisfying the dense-numbering invariant, symbolic element, arbitrary random draw) + fork-mode "
                  "execution of the generator wrappers with a havoc stub for the walk",
        text="Every move/step preserves the invariant from any state satisfying it (n<=5, thorough 6), which covers walks of any length; "
             "the wrappers turn any invariant-satisfying vectors into valid rankings/datasets of the requested shape, with the stub's "
             "precondition checked at every call.",
        design="4/C20"),
}

NOT_YET = "check not built yet in this session (see DESIGN.md section 8 for the build order)"
NA = {
    "C17": "Dataset equality turns on CPython set iteration order under hash collisions; every available engine concretises at "
           "hashing, so no input dimension can be left to a solver (DESIGN.md section 5)",
}


def main():
    props = [json.loads(l)["id"] for l in open(os.path.join(HERE, "properties.jsonl"))]
    checks = []
    for pid in props:
        if pid not in CHECKS:
            continue
        c = CHECKS[pid]
        checks.append({
            "property_id": pid,
            "quick_cmd": f"./check {pid} quick",
            "thorough_cmd": f"./check {pid} thorough",
            "evidence_file": f"/verif/evidence/{pid}.json",
            "replay_cmd_template": "./check --replay {path}",
            "engine": "symx",
            "level_claimed": {"category": "model_checking", "text": c["text"], "design_ref": c["design"]},
            "level_note": c.get("note", TB),
            "technique": c["technique"],
        })
    na = [{"property_id": p, "reason": NA.get(p, NOT_YET)} for p in props if p not in CHECKS]
    man = {
        "version": 1,
        "setup_cmd": "sh ./setup.sh",
        "hooks": {"guard": "CORANKCO_VERIF",
                  "enable": "no source hooks: all interposition is by rebinding module globals inside the checking process "
                            "(CORANKCO_VERIF=1 is exported by ./check for uniformity)",
                  "baseline_off_cmd": "cd /repo && /venv/bin/python -m pytest -ra -q -p no:cacheprovider --timeout=900 "
                                      "--continue-on-collection-errors",
                  "source_commits": [], "add_only": True},
        "engines": [{"name": "symx", "path": "/verif/vf", "serves_properties": [c["property_id"] for c in checks],
                     "kind_free_text": "two home-made symbolic engines over z3: merge-mode bounded AST interpreter of the repo's "
                                       "numeric kernels (source read from /repo on every run) and fork-mode native execution of the "
                                       "glue code on z3 proxy numbers with exhaustive path exploration"}],
        "checks": checks,
        "not_applicable": na,
        "notes": "exit codes: 0 held, 1 replayed violation (VIOLATION line), 2 harness error, 3 inconclusive. "
                 "known_findings.json lists recorded/fixed genuine defects.",
    }
    json.dump(man, open(os.path.join(HERE, "MANIFEST.json"), "w"), indent=1)
    print("claimed:", [c["property_id"] for c in checks], "not applicable:", len(na))


if __name__ == "__main__":
    main()
