#!/bin/bash
# re-applies every kept seeded change to /repo, runs the quick check of its property (first id in meta.checks_run or the
# directory name), undoes it, and prints one line per change.  Usage: tools/recheck_seeded.sh [pattern]
cd /verif
for d in seeded/${1:-*}; do
  id=$(basename $d); pid=${id%%-*}
  cd /repo; git apply /verif/$d/patch.diff 2>/dev/null || git apply --3way /verif/$d/patch.diff 2>/dev/null || { echo "$id: patch does not apply"; git reset -q --hard HEAD; cd /verif; continue; }
  cd /verif; timeout 1500 ./check $pid quick > out/seeded_$id.log 2>&1; rc=$?
  cd /repo; git reset -q --hard HEAD; cd /verif; git checkout -q -- evidence 2>/dev/null
  echo "$id: check $pid rc=$rc violations=$(grep -ac '^VIOLATION' out/seeded_$id.log)"
done
